#!/usr/bin/env python3
"""recheck_seeded.py <id> [<id> ...] | --all [--check Cxx] [--tier quick|thorough]

Re-runs the registered check against already filed seeded defects (/verif/seeded/<id>/patch.diff
applied to /repo, undone afterwards) and updates meta.json (check_quick, detected_by_quick_check,
replay.json). `--check Cxx` runs another property's check instead (recorded under
also_detected_by). Never leaves /repo modified."""
import json, os, shutil, subprocess, sys, time, glob

# isolated regression runs: RECHECK_REPO / RECHECK_VERIF point at scratch copies (a worktree of /repo,
# a copy of /verif whose manifests point at it); the seeded defects are always read from /verif/seeded
REPO = os.environ.get("RECHECK_REPO", "/repo")
VERIF = os.environ.get("RECHECK_VERIF", "/verif")
UPDATE_META = VERIF == "/verif"

args = sys.argv[1:]
other = None
tier = "quick"
ids = []
i = 0
while i < len(args):
    if args[i] == "--check":
        other = args[i + 1]; i += 1
    elif args[i] == "--tier":
        tier = args[i + 1]; i += 1
    elif args[i] == "--all":
        ids = sorted(os.path.basename(d) for d in glob.glob("/verif/seeded/C*-*") if os.path.isdir(d))
    else:
        ids.append(args[i])
    i += 1


def sh(cmd, cwd=None, timeout=2400):
    p = subprocess.run(cmd, shell=True, cwd=cwd, capture_output=True, text=True, timeout=timeout)
    return p.returncode, p.stdout + p.stderr


assert sh(f"git -C {REPO} status --short")[1].strip() == "", "/repo is not clean"
for sid in ids:
    d = f"/verif/seeded/{sid}"
    prop = sid.split("-")[0]
    chk = other or prop
    rc, out = sh(f"git -C {REPO} apply {d}/patch.diff")
    if rc != 0:
        print(sid, "PATCH DOES NOT APPLY", out.strip()[:200])
        continue
    ev = f"{VERIF}/evidence/{chk}.json"
    saved = open(ev).read() if os.path.exists(ev) else None
    try:
        t = time.time()
        rc, out = sh(f"./check {chk} --tier {tier}", cwd=VERIF)
        viol = [l for l in out.splitlines() if l.startswith("VIOLATION") or (l.startswith("[") and "violates" in l)]
        meta = json.load(open(f"{d}/meta.json"))
        rec = {"exit": rc, "lines": [v[:400] for v in viol[:4]], "wall_s": round(time.time() - t), "tier": tier, "repo_head": sh(f"git -C {REPO} rev-parse --short HEAD")[1].strip()}
        if other:
            meta.setdefault("also_detected_by", {})[other] = rec
        else:
            meta["check_quick" if tier == "quick" else "check_thorough"] = rec
            if tier == "quick":
                meta["detected_by_quick_check"] = rc == 1
            else:
                meta["detected_by_thorough_check"] = rc == 1
            for l in out.splitlines():
                if l.startswith("VIOLATION"):
                    rp = l.split("replay=")[1].strip()
                    if os.path.exists(rp) and UPDATE_META:
                        shutil.copy(rp, f"{d}/replay.json")
        if UPDATE_META:
            json.dump(meta, open(f"{d}/meta.json", "w"), indent=1)
        print(sid, "check", chk, tier, "exit", rc, (viol[-1][:160] if viol else ""))
    finally:
        sh(f"git -C {REPO} checkout -- .")
        # the evidence file describes the unchanged tree: a run against a seeded defect must not replace it
        if saved is not None:
            open(ev, "w").write(saved)
    assert sh(f"git -C {REPO} status --short")[1].strip() == "", "/repo not clean after " + sid
