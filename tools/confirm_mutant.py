#!/usr/bin/env python3
"""confirm_mutant.py <prop> <A|B> [--skip-suite]

Confirms a sub-agent's seeded defect in a scratch worktree (/tmp/confirm, a worktree of /repo HEAD):
  1. demo passes on the clean tree, 2. patch applies, 3. demo fails with the patch,
  4. the full existing suite passes with the patch.
Then runs the registered quick check against /repo with the patch applied (and undoes it), and
files everything under /verif/seeded/<prop>-<letter>/ (patch.diff, demo, meta.json).
"""
import json, os, shutil, subprocess, sys, time

prop, letter = sys.argv[1], sys.argv[2]
skip_suite = "--skip-suite" in sys.argv
src = f"/tmp/mut/{prop}/out"
wt = "/tmp/confirm"
meta = json.load(open(f"{src}/{letter}.meta.json"))
patch = f"{src}/{letter}.patch.diff"


def sh(cmd, cwd=None, timeout=1500):
    p = subprocess.run(cmd, shell=True, cwd=cwd, capture_output=True, text=True, timeout=timeout)
    return p.returncode, p.stdout + p.stderr


if not os.path.isdir(wt):
    rc, out = sh(f"git -C /repo worktree add --detach {wt} HEAD")
    assert rc == 0, out
    sh(f"cp -r /repo/target {wt}/target")
else:
    sh("git checkout -q --detach && git reset -q --hard && git clean -fdq -e target", cwd=wt)
    head = subprocess.run("git -C /repo rev-parse HEAD", shell=True, capture_output=True, text=True).stdout.strip()
    sh(f"git checkout -q --detach {head}", cwd=wt)

result = {"property": prop, "mutant": letter, "summary": meta.get("summary"), "needs_to_manifest": meta.get("needs_to_manifest"),
          "demo_cmd": meta["demo_cmd"], "suite_cmd": meta.get("suite_cmd"), "confirmed_at_repo_head": subprocess.run("git -C /repo rev-parse --short HEAD", shell=True, capture_output=True, text=True).stdout.strip()}
# demo files
for d in meta["demo_files"]:
    dst = os.path.join(wt, d["path_in_repo"])
    os.makedirs(os.path.dirname(dst), exist_ok=True)
    shutil.copy(os.path.join(src, d["file"]), dst)
rc, out = sh(meta["demo_cmd"], cwd=wt)
result["demo_without_patch"] = "pass" if rc == 0 else "FAIL"
print("demo without patch:", result["demo_without_patch"])
if rc != 0:
    print(out[-2000:])
def place_demo():
    for d in meta["demo_files"]:
        dst = os.path.join(wt, d["path_in_repo"])
        os.makedirs(os.path.dirname(dst), exist_ok=True)
        shutil.copy(os.path.join(src, d["file"]), dst)


# remove the demo again so that the suite run below is the unedited suite
sh("git clean -fdq -e target", cwd=wt)
rc, out = sh(f"git apply {patch}", cwd=wt)
result["patch_applies"] = rc == 0
if rc != 0:
    print("PATCH DOES NOT APPLY", out)
    json.dump(result, sys.stdout, indent=1)
    sys.exit(1)
if not skip_suite:
    t = time.time()
    rc, out = sh("cargo test --workspace --no-fail-fast --offline 2>&1 | grep -E '^test result|FAILED|failed' ", cwd=wt)
    lines = out.strip().splitlines()
    oks = [l for l in lines if l.startswith("test result: ok")]
    passed = sum(int(l.split("ok. ")[1].split(" passed")[0]) for l in oks)
    failed_results = [l for l in lines if l.startswith("test result: FAILED")]
    result["suite_with_patch"] = {"passed": passed, "failed_result_lines": len(failed_results), "wall_s": round(time.time() - t)}
    print("suite with patch (no demo in tree):", result["suite_with_patch"], failed_results[:3])
place_demo()
fails = 0
for i in range(2):
    rc, out = sh(meta["demo_cmd"], cwd=wt)
    fails += rc != 0
result["demo_with_patch"] = f"failed {fails}/2 runs"
print("demo with patch:", result["demo_with_patch"])
sh("git checkout -q -- . && git clean -fdq -e target", cwd=wt)

# now the registered check against /repo itself
rc, out = sh(f"git -C /repo apply {patch}")
assert rc == 0, out
_ev = f"/verif/evidence/{prop}.json"
_saved = open(_ev).read() if os.path.exists(_ev) else None
try:
    t = time.time()
    rc, out = sh(f"./check {prop} --tier quick", cwd="/verif", timeout=1500)
    viol = [l for l in out.splitlines() if l.startswith("VIOLATION") or l.startswith("[") and "violates" in l]
    result["check_quick"] = {"exit": rc, "lines": viol[:4], "wall_s": round(time.time() - t)}
    print("check quick exit", rc, viol[:3])
    # keep the replay next to the seeded defect
    for l in out.splitlines():
        if l.startswith("VIOLATION"):
            rp = l.split("replay=")[1].strip()
            os.makedirs(f"/verif/seeded/{prop}-{letter}", exist_ok=True)
            if os.path.exists(rp):
                shutil.copy(rp, f"/verif/seeded/{prop}-{letter}/replay.json")
finally:
    sh("git -C /repo checkout -- .")
    # the evidence file describes the unchanged tree: a run against a seeded defect must not replace it
    if _saved is not None:
        open(_ev, "w").write(_saved)
st = subprocess.run("git -C /repo status --short", shell=True, capture_output=True, text=True).stdout.strip()
assert st == "", "repo not clean: " + st
dst = f"/verif/seeded/{prop}-{letter}"
os.makedirs(dst, exist_ok=True)
shutil.copy(patch, f"{dst}/patch.diff")
for d in meta["demo_files"]:
    shutil.copy(os.path.join(src, d["file"]), f"{dst}/" + os.path.basename(d["file"]))
result["demo_files"] = meta["demo_files"]
result["breaks_property"] = prop
result["detected_by_quick_check"] = result["check_quick"]["exit"] == 1
json.dump(result, open(f"{dst}/meta.json", "w"), indent=1)
print("filed under", dst, "detected:", result["detected_by_quick_check"])
