#!/usr/bin/env python3
"""mut.py <file> <<< 'OLD\n=====\nNEW'  — replace exactly one occurrence in /repo/<file> (scratch mutants)."""
import sys
path = '/repo/' + sys.argv[1]
old, new = sys.stdin.read().split('\n=====\n')
new = new.rstrip('\n') + '\n' if new.endswith('\n') else new
s = open(path).read()
if s.count(old) != 1:
    sys.exit(f'pattern occurs {s.count(old)} times in {path}')
open(path, 'w').write(s.replace(old, new))
