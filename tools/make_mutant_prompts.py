#!/usr/bin/env python3
"""make_mutant_prompts.py <round-number> [<Cxx> ...]

Writes /tmp/mut/<Cxx>.prompt<round>.txt for the seeded-defect campaign (DESIGN.md 10.5): the text a
fresh sub-agent gets — the property's text only, its private scratch worktree /tmp/mut/<Cxx> (create
it with `git -C /repo worktree add --detach /tmp/mut/<Cxx> HEAD && cp -r /repo/target /tmp/mut/<Cxx>/`),
the rules, and one line per defect already filed for that property (so that a new round uses new
mechanisms). Nothing of /verif's machinery is shown to the sub-agent. Deliverables are named
A<round>.* / B<round>.* and are confirmed with tools/confirm_mutant.py <Cxx> A<round>."""
import glob, json, os, sys

rnd = sys.argv[1]
want = sys.argv[2:]
props = [json.loads(l) for l in open("/verif/properties.jsonl")]
na = set(x.get("property_id", x.get("property", x.get("id"))) if isinstance(x, dict) else x for x in json.load(open("/verif/MANIFEST.json")).get("not_applicable", []))
os.makedirs("/tmp/mut", exist_ok=True)
for p in props:
    pid = p["id"]
    if pid in na or (want and pid not in want):
        continue
    wt = f"/tmp/mut/{pid}"
    earlier = []
    for d in sorted(glob.glob(f"/verif/seeded/{pid}-*")):
        try:
            earlier.append("- " + str(json.load(open(d + "/meta.json")).get("summary", "")).replace("\n", " ")[:260])
        except Exception:
            pass
    a, b = f"A{rnd}", f"B{rnd}"
    text = f"""You are helping evaluate a verification effort by producing realistic "seeded defects" for a Rust library (metrics-rs/metrics: metrics facade, utility storage, exporters).

Your private scratch copy of the repository is the git worktree at {wt} (Rust toolchain 1.74.0 is pinned by rust-toolchain.toml; everything is OFFLINE: always pass --offline to cargo, nothing can be downloaded). A pre-built `target/` directory is already inside it so builds are incremental. Work ONLY inside {wt}. Never read, write or run anything under /repo or /verif.

The property you must break (text only — this is all you get):

-----
{pid} — {p['title']}

STATEMENT: {p['statement']}

QUANTIFIED OVER: {p['quantifier']['text']}

WHY THE EXISTING TESTS CANNOT SETTLE IT: {p['why_tests_cant']}

CODE ANCHORS: {', '.join(p['anchors']['files'])}
-----

YOUR TASK: produce TWO independent changes (mutants "{a}" and "{b}", with different mechanisms) to the library source under {wt} such that, for each change:
 1. the workspace still compiles and the ENTIRE existing test suite still passes with the change:  `cd {wt} && cargo test --workspace --no-fail-fast --offline`  (must show no failures; run it and confirm);
 2. the change makes the property above FALSE for the library;
 3. the breakage needs something specific to manifest — a particular thread interleaving, a fault at a particular point, a multi-step sequence of operations, an unusual input/configuration, or two cooperating edits that each look fine alone — NOT something that ordinary use or a trivial smoke test exposes at once. Prefer changes that look like plausible refactorings / optimisations / off-by-one or ordering slips;
 4. you provide a demonstration: a Rust test (in the affected crate's `tests/` directory or as a `#[test]` in a NEW file; do not edit existing tests) or a small example program that FAILS (or prints a clearly wrong result) with the change and PASSES without it. For race conditions the demonstration may force the interleaving (barriers, sleeps, many iterations).

RULES for the changes:
 - Source files contain lines guarded by `#[cfg(metrics_verif)]` / `#[cfg(not(metrics_verif))]` and a file metrics/src/__verif.rs: instrumentation seams that are OFF in normal builds. Leave them alone: do not edit, move or delete those lines or that file. If you change a `use` line that exists twice (once per cfg), change both copies consistently.
 - Change only library source (src/ of the workspace crates), not tests, not Cargo.toml, not build scripts.
 - Keep each change small (a few lines to ~30 lines).
 - The two mutants must be separate patches, each against the clean tree (git stash / git checkout between them).
 - Every cargo run rewrites the stale Cargo.lock: keep it out of the patches (`git diff -- <crate>/src`) and restore it.

DELIVERABLES — write them to {wt}/out/ :
   {a}.patch.diff, {b}.patch.diff       (`git diff` of the library change ONLY, against the clean worktree HEAD, without the demo files)
   {a}.demo/, {b}.demo/                 (the demonstration file(s))
   {a}.meta.json, {b}.meta.json         {{"property": "{pid}", "summary": "...what the change does...", "needs_to_manifest": "...interleaving / fault / sequence / input required...", "demo_files": [{{"path_in_repo": "...", "file": "{a}.demo/..."}}], "demo_cmd": "exact command, run from the worktree root, that fails with the patch and passes without", "suite_cmd": "cargo test --workspace --no-fail-fast --offline"}}
 At the end leave the worktree CLEAN of your library edits (git checkout -- . ; remove demo files from the source tree) — only out/ and target/ remain. In your final message give a 5-line summary per mutant. Verify each deliverable by applying patch + demo on the clean tree one final time.
"""
    if earlier:
        text += "\nIMPORTANT — mutants using the following mechanisms were already produced for this property in earlier rounds; yours must use clearly DIFFERENT mechanisms (different function / different clause of the property / different kind of trigger), preferably in parts of the anchored code that none of these touched:\n" + "\n".join(earlier) + "\n"
    text += "\nWhere the property has such a dimension, prefer a defect whose trigger involves an I/O fault or partial write, a timeout, a disconnect / reconnect, a clock movement, an allocation/capacity boundary, a panic or slow call in user-supplied code, a descheduled thread, an error / recovery / shutdown path, or a specific thread interleaving — over one triggered by an unusual input value alone.\n"
    open(f"/tmp/mut/{pid}.prompt{rnd}.txt", "w").write(text)
    print(pid, len(earlier), "earlier mechanisms")
