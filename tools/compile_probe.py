#!/usr/bin/env python3
"""compile_probe.py C01 [--replay <file>]

Auxiliary static probe (not a simulation): a small program that must be REJECTED by the compiler.
C01's last clause ("no emission is ever dispatched to a recorder after the borrow that installed it
has ended") is enforced by the lifetime on LocalRecorderGuard; a signature change that lets the
guard outlive the recorder changes no run-time behaviour of well-formed programs, so no schedule
can show it — but then this program compiles. Exit 0 = rejected as it must be (E0505 / E0597),
1 = VIOLATION (it compiles), 2 = harness error (it fails for another reason)."""
import json, os, subprocess, sys, time

V = os.path.dirname(os.path.dirname(os.path.abspath(__file__)))
PROBES = {"C01": ("c01_guard_lifetime", "guard-outlives-recorder", ("E0505", "E0597", "E0716"))}
prop = sys.argv[1]
crate, cls, codes = PROBES[prop]
d = os.path.join(V, "probes", crate)
t = time.time()
p = subprocess.run(["cargo", "check", "--offline", "--message-format", "short"], cwd=d, capture_output=True, text=True, env=dict(os.environ, CARGO_NET_OFFLINE="true"))
out = p.stdout + p.stderr
wall = time.time() - t
if p.returncode != 0 and any(c in out for c in codes):
    print(f"[{prop}:compile-probe] {crate}: rejected by the borrow checker as required ({wall:.1f}s)", file=sys.stderr)
    ev = os.path.join(V, "evidence", f"{prop}.json")
    if os.path.exists(ev):
        e = json.load(open(ev))
        e["coverage"]["compile_probe"] = {"probe": f"probes/{crate}", "what": "auxiliary static check, not a simulation: a program that drops a recorder while the guard returned by set_default_local_recorder is alive must be rejected by the compiler", "outcome": "rejected (" + ", ".join(c for c in codes if c in out) + ")", "wall_s": round(wall, 1)}
        json.dump(e, open(ev, "w"), indent=1)
    sys.exit(0)
if p.returncode == 0:
    os.makedirs(os.path.join(V, "replays"), exist_ok=True)
    path = os.path.join(V, "replays", f"{prop}-compile-probe.json")
    json.dump({"property": prop, "scenario": "compile-probe", "engine": "compile-probe", "probe": crate,
               "violation": {"class": cls, "detail": f"probes/{crate}/src/main.rs drops the recorder while the guard returned by set_default_local_recorder is alive and then emits; it must not compile, but it does: the guard no longer borrows the recorder"},
               "repo_head": subprocess.run(["git", "-C", "/repo", "rev-parse", "HEAD"], capture_output=True, text=True).stdout.strip()}, open(path, "w"), indent=1)
    print(f"[{prop}] compile probe violates: {cls} — the program that lets a recorder die under its guard compiles", file=sys.stderr)
    print(f"VIOLATION property={prop} replay={path}")
    sys.exit(1)
print("HARNESS-ERROR: compile probe failed for another reason\n" + out[-2000:], file=sys.stderr)
sys.exit(2)
