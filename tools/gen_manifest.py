#!/usr/bin/env python3
"""Generates /verif/MANIFEST.json from the table below (single source of truth for what is claimed)."""
import json, subprocess, os
V = os.path.dirname(os.path.dirname(os.path.abspath(__file__)))

CLAIMED = {
  # id: (technique, level text, level note, design ref)
  "C02": ("deterministic simulation (dsim): seeded schedules over every atomic step of RecorderOnceCell::set/try_load with racing installers and loaders, at cell level and through set_global_recorder + the emission macros",
          "Seeded search over interleavings of 2-4 installers and 0-3 loaders on a fresh once-cell per run, each shimmed atomic operation a scheduling point; oracle: at most one Ok, losers get their own recorder back undropped, loads stable and never before install. A second, facade-level scenario races 1-3 real set_global_recorder calls against 1-3 threads emitting through counter!/histogram!/describe_gauge! (with_recorder on every emission) on the process-wide cell, which a guarded hook returns to 'uninstalled' between runs: once any emission was dispatched to the installed recorder every later one is, to the same intact recorder; earlier ones reach nobody. A worker process killed by a signal while executing a run is reported as class 'crash'. Evidence, not proof.",
          "Sequentially consistent interleavings only (weak-memory publication bugs are outside this engine); recorder doubles are stubs; one run stands for one process life of the global cell (reset hook).",
          "DESIGN.md 4/C02"),
  "C01": ("deterministic simulation (dsim): seeded programs of nested / unordered local-recorder scopes, leaked guards, panics and macro emissions on 1-3 simulated threads, checked against a reference scope interpreter",
          "Seeded programs (closure scopes nested to depth 6, set_default_local_recorder guards dropped in any order or leaked, panics unwinding through scopes, a real set_global_recorder call at a random point of any thread's program (possibly racing another), optionally two different recorders at one address, 23 call sites covering every macro arm) run on 1-3 threads interleaved at operation granularity; after every emission exactly one recorder call must have happened, on the recorder the specification interpreter names (innermost live scope of that thread, else global, else nobody), with the name, labels, level, target, module path, unit and description the call site spells. A second interpreter models the save-and-restore implementation so that the two known unsound histories (non-LIFO guard drop, mem::forget) are attributed by structure and everything else is a new violation.",
          "Recorder doubles are kept alive beyond their logical scope (a dispatch to an ended scope is observed, not undefined behaviour), so real use-after-free is out of reach; the process-wide global cell is returned to 'uninstalled' between runs by a guarded hook (one run = one process life).",
          "DESIGN.md 4/C01"),
  "C14": ("seeded interpretation under Miri (-Zmiri-many-seeds): seeded programs of construct/clone/convert/hand-over/drop over SharedString and Key labels on two threads, Miri as memory oracle",
          "Each execution is one seeded program (6-19 steps of construct from static/owned-with-any-capacity/Arc/std-Cow/run-time borrowed label tables, clone, deref/compare/hash, into_owned, Key::into_parts, with_extra_labels, hand-over to another thread that checks, clones and drops, drop) under one Miri interpreter seed: a seeded scheduler pre-empting at basic-block granularity with weak-memory emulation, so one (program, seed) pair is one repeatable execution. The program checks content against a model and Arc strong counts after every step; Miri reports use-after-free, double free, layout-mismatched deallocation, leaks and data races. Runs the shipped token stream (guard off) through a shadow manifest.",
          "Miri explores the executions it is given, not all of them; the schedule dimension of this property is thin (Arc reference counting is std's); the Cow->std::borrow::Cow conversion does not exist for str/slices and is not exercised.",
          "DESIGN.md 4/C14, 3.7"),
  "C05": ("deterministic simulation (dsim): seeded schedules at atomic-operation granularity over AtomicBucket push/data_with/is_empty/clear_with incl. block hand-over, real crossbeam-epoch",
          "Seeded search over interleavings of 2-4 threads mixing push, snapshot reads, is_empty and clears on one bucket pre-filled next to the 64-slot block boundary (rarely with 33-66 blocks, beyond the clear path's reclamation batch of 32); every operation on write/read/tail/next and both quiescence loops is a scheduling point. Oracle over the recorded history: multiset conservation (each pushed tag delivered to exactly one clear or left for the final drain), snapshot completeness window, no fabricated/duplicate/torn value, per-block order, no double drop of values with destructors. Three genuine defects found this way were repaired (known_findings.json).",
          "Sequentially consistent interleavings only; internals of crossbeam-epoch are single steps; leak of values with destructors is not asserted (epoch reclamation is deferred); plans using the callback-less clear() are checked for fabrication/duplication/order only.",
          "DESIGN.md 4/C05"),
  "C04": ("deterministic simulation (dsim): seeded schedules over handle clones updating shared atomic storage from 2-4 threads, every atomic RMW / CAS-loop step a scheduling point",
          "Seeded search over interleavings of counter increment/absolute, gauge increment/decrement/set and histogram record/record_many through cloned handles; oracle: exact wrapped sums, monotone absolute counters, exact integer-valued gauge sums, linearizable set, record_many delivers exactly n, documented IntoF64 conversions, no panic for extreme values, no-op handles inert.",
          "Sequentially consistent interleavings only; logging doubles stand in for custom HistogramFn implementations.",
          "DESIGN.md 4/C04"),
  "C20": ("deterministic simulation (dsim): seeded schedules over emitters racing into_inner / handle drop at Weak::upgrade, Arc::try_unwrap and strong-reference-drop granularity",
          "Seeded search over interleavings of 1-3 emitting threads (all six Recorder methods through the weak wrapper) with RecoveryHandle::into_inner or drop; oracle: zero calls in flight at the instant into_inner returns, nothing enters after finalisation, every emission completed before recovery reached the recorder, later ones are inert, drop count exactly 1. One deviation is recorded as a known finding (handle drop while a call is in flight).",
          "Sequentially consistent interleavings only; std Arc/Weak are replaced under the guard by transparent shims that announce upgrade/try_unwrap/drop. Profiles: stand-alone wrapper or real install() + with_recorder; metric handles dropped at once or retained to the end of the run; install() failing because a global recorder exists.",
          "DESIGN.md 4/C20"),
  "C03": ("deterministic simulation (dsim): seeded schedules over racing first get_hash()/clone() on lazily hashed shared keys, with seeded key generation for the relational laws",
          "Seeded search over interleavings of 2-4 threads calling get_hash, clone+get_hash, std Hash and ==/cmp on 3-5 shared keys built through every public constructor (incl. lazily hashed static keys), each atomic load/store of the memoised hash a scheduling point; at quiescence all pairs/triples are checked for the equivalence/total-order/hash-coherence laws, construction-path and permutation irrelevance. One genuine defect (Eq vs Ord for two same-named labels) was found and repaired.",
          "Sequentially consistent interleavings only; the algebraic half is seeded input generation riding inside the simulation, not a result of schedule search.",
          "DESIGN.md 4/C03"),
  "C06": ("deterministic simulation (dsim) + WGL linearizability check against a sequential map model",
          "Seeded search over interleavings of 2-4 threads issuing get_or_create/get/delete/retain/clear/visit/get_*_handles on 1-4 keys (equal keys built differently, permuted labels, same-shard keys) incl. a crowded-shard profile that makes a per-shard table grow, keys shared by reference whose first hashing races, and get_or_create closures that panic after seeing the storage and up to three kinds, shard-lock acquisition/release windows being scheduling points; the recorded invoke/return history is checked for linearizability against a sequential (kind,key)->storage-id map with a counting Storage double; quiescent listings through both listing APIs close every history.",
          "clear/retain/visit/listings are per-shard by documentation and are modelled as independent per-key sub-operations; histories are capped at 60 sub-operations and 3M checker nodes (over-budget histories are counted, not judged).",
          "DESIGN.md 4/C06"),
  "C16": ("deterministic simulation (dsim): seeded schedules over pushers racing a drainer at atomic-step granularity, simulator-seeded reservoir RNG; seeded retention-frequency trials",
          "Sequential push/drain cycles are checked exactly (count, membership, sample rate, emptiness) for capacities 0..1024; concurrent pushes || drains are checked for capacity, fabrication, duplication, staleness and loss with the known concurrent-design deviation recorded as a known finding by structural signature (a push invoked before the overlapping drain's closure was entered, or a push overlapped by such a push); a second scenario runs 20 000+ seeded trials per (capacity, stream length) cell and bounds every position's retention frequency by 6 sigma. The off-by-one in the replacement index (and the capacity-0 panic) were found and repaired.",
          "Sequentially consistent interleavings only; the uniformity half is a statistical test on a seeded generator (deterministic for a given seed).",
          "DESIGN.md 4/C16"),
  "C19": ("deterministic simulation (dsim): seeded schedules over updaters racing snapshotters on a real DebuggingRecorder, with a second recorder installed locally on another thread",
          "Seeded search over interleavings of 1-3 updater threads (register+update through the thread-local dispatch path, equal keys built differently, describe with/without unit), a histogram pre-filled across its 64-value block boundary and 1-2 snapshotting threads; oracle over the history: every histogram value in exactly one snapshot, counter/gauge values inside the snapshot's window, registered-before metrics listed, described-only and other-recorder metrics never listed, first-registration order, unit/description per (kind,name) with sticky unit.",
          "Sequentially consistent interleavings only; one describing thread per recorder so that the describe order is the real-time order.",
          "DESIGN.md 4/C19"),
  "C07": ("deterministic simulation (dsim): seeded schedules over recorder threads racing render()/run_upkeep()/describe on a real PrometheusRecorder; output parsed by an independent strict text-format parser",
          "Seeded search over interleavings of 1-3 recording threads (counter increment/absolute, gauge set, histogram record; equal keys built differently), histograms pre-filled to a sample-block boundary, clock advances past the summary window, 1-2 rendering threads and upkeep calls, under seeded builder configurations (global labels overlapping key labels, global and per-metric buckets, quantiles, unit suffix); every render is parsed strictly and compared with the history: window bounds for counts/sums/buckets while concurrent, exact values at quiescence, monotone across non-overlapping renders, label merge with key precedence, first-description HELP, idempotent quiescent render.",
          "Sequentially consistent interleavings only; one series per family and one describing thread per run; handle listings are sorted under the guard so the render thread's lock order is seed-deterministic (oracles compare sets, never order).",
          "DESIGN.md 4/C07"),
  "C12": ("deterministic simulation (dsim) on virtual time: seeded update / clock-advance / observe histories under a mock quanta clock, single simulated thread",
          "The nondeterminism is the clock. Seeded histories (advances of exactly the timeout and +/- 1 ns, value-preserving updates, all masks, no timeout, the same key under two kinds) drive (i) the real Recency + Registry the way an exporter does and (ii) the real Prometheus recorder built around the mock clock and observed through render(); (iii) an updater thread racing the observing thread on one counter with every step of Generational / the shard lock / the recency table a scheduling point (a drop may not lose an update completed before the dropping observation began); a per-(kind,key) state machine (generation, first-seen time) predicts keep/drop exactly, including full values when kept and restart from zero after a drop. The shared-entry defect for one key under two kinds was found and repaired.",
          "Single-threaded histories (no schedule dimension); the exporter loop around should_store_* in scenario (i) is harness code written the way the exporters do it.",
          "DESIGN.md 4/C12"),
  "C15": ("deterministic simulation (dsim) on virtual time: seeded sample / clock-advance / render histories under a mock quanta clock, single simulated thread",
          "Seeded histories (advances around bucket and window edges, samples equal to bounds, negatives, zero, infinities, NaN; seeded matcher sets, bucket counts and durations) drive the real Prometheus recorder and a direct Histogram; oracle: count at bound b = #samples <= b, cumulative, never decreasing over time, +Inf = total, single vs batched identical, histogram-vs-summary type and the applicable bounds by full > prefix > suffix > global precedence, summary quantiles inside the range of samples that can be inside the rolling window (0 when none can) and never influenced by samples older than the window, _sum/_count covering everything.",
          "Half of this property is a pure function of its inputs and is checked as an invariant on the states the simulated histories reach, not claimed as a result of schedule search; summary-typed metrics get finite samples only; 0.2% tolerance for the sketch.",
          "DESIGN.md 4/C15"),
  "C09": ("deterministic simulation (dsim) with fault injection: seeded write/drain histories on one PayloadWriter; and the whole exporter (forwarder loop on virtual time) against a simulated agent socket with seeded send faults",
          "(i) Seeded histories of write_counter/gauge/histogram/distribution and drains (flush cycles) on ONE writer through the guarded driver: size limits from 0 upward, with/without length prefix, prefix and label lengths up to beyond the limit, u64/f64 extremes and non-finite values, 0..3000 histogram values, rare flush cycles above 64 KiB, histogram writes reusing the previous key with another sample rate, size-rejected metrics followed by metrics that fit; every payload is parsed by an independent DogStatsD parser and every input point must be in exactly one payload or reported dropped, with exact little-endian length prefixes. (ii) The real DogStatsDBuilder::build pipeline on virtual time against simulated UDP / unixgram / unix-stream peers with drop, duplicate, ECONNREFUSED, ENOBUFS, timeout, short write, EINTR, EPIPE and reset faults: well-formed messages within the limit, whole length-prefixed frames (a fragment only where a connection ended in an injected error). Three genuine defects found this way were repaired.",
          "Names and labels use an alphabet without DogStatsD delimiters; layer (i) has no schedule dimension (single simulated thread); conservation in layer (ii) is asserted in fault-free runs only.",
          "DESIGN.md 4/C09"),
  "C10": ("deterministic simulation (dsim) with fault injection: seeded schedules of updater threads racing State::flush at atomic-step granularity; and the real forwarder loop on virtual time against a simulated, faulty agent socket",
          "(i) 1-3 updater threads (increment-only counter, single-writer absolute counter, gauge sets, histogram records) race a flusher thread calling the real State::flush; oracle per key over the whole run with three quiescent flushes at the end: deltas add up exactly, cumulative deltas never exceed what was added, every flush carries a value the gauge held in its window, every histogram value in exactly one flush, exactly one idle zero then silence, |T present exactly in the mode documented to send it, prefix and tag order. (ii) the built exporter on virtual time against simulated UDP / unixgram / unix-stream peers with send faults: framing, well-formedness, and the same conservation oracle per flush cycle in fault-free runs. The inverted timestamp rule and the update-count-keyed idle logic were found and repaired; the first-absolute/flush race is a recorded known finding.",
          "Sequentially consistent interleavings only; sampling is off (exact identities); in (ii) application updates happen mid-interval (races are (i)'s job).",
          "DESIGN.md 4/C10"),
  "C11": ("deterministic simulation (dsim) with fault injection: the real run_transport event loop over a simulated mio (poll, waker, listener, stream pipes) with slow, stalled, closing and resetting clients, partial writes, EAGAIN, EINTR, EPIPE",
          "Seeded scripts of describe / connect / burst (1-2 emitter threads) incl. overloads above the configured buffer / read / stall / close / reset / idle steps drive the built exporter; pipe capacities from 1 byte up force partial writes inside frames; seeded faults on every write and poll. The exporter's channel operations are scheduling points (guarded shim), and delivery is also checked at a quiescent point before the final burst (no delivery that needs later traffic). Each client's byte stream is decoded by a hand-written protobuf decoder: whole length-delimited Events only (a fragment only on killed connections), metadata before metrics and only what was described, metric name/labels/operation intact, no duplicate, per-emitter and per-burst order, full delivery to prompt roomy clients, and - after faults stop and everybody drained - delivery of a final burst to every still-connected client for every buffer configuration including None. Three genuine defects found this way were repaired.",
          "Sequentially consistent interleavings only; mio is replaced under the guard by a shim with the same API subset whose behaviours (edge-triggered readiness, EAGAIN followed by a writable edge) follow epoll semantics; client and metadata maps are ordered maps under the guard; bursts stay within the configured buffer between transport-idle points.",
          "DESIGN.md 4/C11"),
  "C17": ("deterministic simulation (dsim): seeded span-tree programs on 1-3 threads sharing one tracing Dispatch, interleaved at operation granularity, checked against a reference span-stack model",
          "Seeded programs of enter / exit / record / emit over four span call sites/six since round 2, plus explicit-root spans and a span shared by an emitting and a recording thread whose value formatting is a scheduling point, with overlapping field names, Empty fields and values of every visited type run on 1-3 simulated threads sharing one Registry+MetricsLayer dispatch and one TracingContextLayer (include-all, allow-list, or a custom filter); a per-thread model of the span stack (own fields, parent's labels at creation not overwriting, record() overwriting on that span only) predicts the labels of every emitted key: filtered span labels overwritten by the metric's own, no label name twice, key unchanged without span fields, independent of other threads.",
          "Interleavings inside sharded-slab and the label object pool are not subdivided (schedule sampled at harness-operation granularity); four fixed span call sites.",
          "DESIGN.md 4/C17"),
  "C18": ("seeded simulation with fault injection over a simulated listener/stream seam: the real accept loop, allowlist check and hyper connection on a tokio current-thread runtime, with scripted peers of arbitrary source address",
          "Seeded allowlists built through the builder from entries in both documented syntaxes (plain address, CIDR; nested, overlapping, v4/v6, or none) and seeded groups of 1-6 concurrent connections: well-formed GETs on six paths from peers inside, outside and on the first/last address of the listed networks and their neighbours, pipelined requests, garbage, truncated heads, half-open and reset connections, seed-chunked writes, seeded short reads/writes/EINTR/resets; an independent CIDR model decides allowed(peer); allowed: /health -> 200 OK, other paths -> 200 with a body that parses strictly and shows the counter inside its window; not allowed: 403, empty body and never a byte of metric data; after everything a well-formed request from an allowed peer is answered. The plain-address rejection was found and repaired.",
          "Runs on tokio's own current-thread scheduler, not under dsim: spawn_blocking completion is a scheduler the harness does not own, so verdicts are per connection and timing-independent but the trace is not replay-exact (plan, peers, chunking and injected faults are); answers are awaited for at most 5 s per connection.",
          "DESIGN.md 4/C18"),
}

NOT_APPLICABLE = {
  "C08": "pure function of input strings and a configuration flag: no schedule, clock, I/O or fault for a simulator to control (DESIGN.md 4/C08)",
  "C13": "every layer is a pure function of (configuration, operation): nothing concurrent, timed or faulty to simulate (DESIGN.md 4/C13)",
}
NOT_YET = "check not built yet in this round (claimed by DESIGN.md; machinery in progress)"

props = [json.loads(l)["id"] for l in open(os.path.join(V, "properties.jsonl"))]
hooks_commits = subprocess.run(["git", "-C", "/repo", "log", "--format=%H %s", "b762b22..HEAD"], capture_output=True, text=True).stdout.strip().splitlines()
hook_shas = [l.split()[0] for l in hooks_commits if "verif hooks" in l]

checks = []
for pid in props:
    if pid in CLAIMED:
        tech, text, note, ref = CLAIMED[pid]
        checks.append({
            "property_id": pid,
            "quick_cmd": f"./check {pid} --tier quick",
            "thorough_cmd": f"./check {pid} --tier thorough",
            "evidence_file": f"/verif/evidence/{pid}.json",
            "replay_cmd_template": f"./check {pid} --replay {{path}}",
            "engine": "miri" if pid == "C14" else "dsim",
            "level_claimed": {"category": "exploration", "text": text, "design_ref": ref},
            "level_note": note + (" The thorough tier additionally runs a small plain-thread program for this property under Miri's seeded scheduler (weak-memory emulation, data-race detection) and records it under coverage.miri" + (" (for C02 the quick tier does too)." if pid == "C02" else ".") if pid in ("C02", "C03", "C05", "C16", "C20") else ""),
            "technique": tech,
        })
na = []
for pid in props:
    if pid in CLAIMED: continue
    na.append({"property_id": pid, "reason": NOT_APPLICABLE.get(pid, NOT_YET)})

m = {
  "version": 1,
  "setup_cmd": "cd /verif/harness && CARGO_NET_OFFLINE=true cargo build --release --offline && cd /verif/miri/c14 && CARGO_NET_OFFLINE=true MIRIFLAGS=-Zmiri-preemption-rate=0.1 cargo +nightly miri run --offline -- 0 0 && cd /verif/miri/c02 && CARGO_NET_OFFLINE=true MIRIFLAGS=-Zmiri-preemption-rate=0.1 cargo +nightly miri run --offline -- 0 0",
  "hooks": {
    "guard": "--cfg metrics_verif (rustc cfg flag, set through RUSTFLAGS in /verif/harness/.cargo/config.toml)",
    "enable": "RUSTFLAGS='--cfg metrics_verif' — the harness crate /verif/harness path-depends on the six /repo crates and builds them with the flag; no Cargo.toml of /repo changes",
    "baseline_off_cmd": "cd /repo && cargo test --workspace --no-fail-fast --offline; rc=$?; git checkout -- Cargo.lock; exit $rc",
    "source_commits": hook_shas,
    "add_only": True,
  },
  "engines": [
    {"name": "miri", "path": "/verif/miri", "serves_properties": ["C14", "C02", "C03", "C05", "C16", "C20"], "kind_free_text": "Miri as a seeded interpreter: cargo +nightly miri run -Zmiri-many-seeds over shadow crates that build /repo source files with the guard off; replay = (program, interpreter seed, flags). Decides C14; second engine in the thorough tier of C02, C03, C05, C16, C20 (weak-memory emulation, data-race / use-after-free detection at basic-block pre-emption granularity)"},
    {"name": "dsim", "path": "/verif/dsim", "serves_properties": sorted(p for p in CLAIMED if p != "C14"), "kind_free_text": "deterministic simulation with fault injection: real code on real OS threads, one baton, seeded scheduler (random/sticky/PCT/round-robin), virtual time, seeded fault streams, replay + minimisation"},
  ],
  "checks": checks,
  "not_applicable": na,
  "notes": "All checks: exit 0 held, exit 1 with 'VIOLATION property=<id> replay=<path>', exit 2 harness error. VERIF_SEED selects the batch (default 1), VERIF_BUDGET_S caps wall time. Known findings: /verif/known_findings.json.",
}
json.dump(m, open(os.path.join(V, "MANIFEST.json"), "w"), indent=1)
print("claimed", sorted(CLAIMED), "n/a", [x["property_id"] for x in na])
