// Must be rejected by the borrow checker (E0505): the guard returned by
// `set_default_local_recorder` borrows the recorder, so the recorder cannot be dropped (or moved)
// while the guard is alive. If this compiles, a safe program can leave the thread-local pointer
// dangling and the next emission is dispatched to a recorder whose borrow has ended.
fn main() {
    let rec = metrics::NoopRecorder;
    let guard = metrics::set_default_local_recorder(&rec);
    drop(rec);
    metrics::counter!("c01_probe").increment(1);
    drop(guard);
}
