//! dsim — deterministic simulation of real threads.
//!
//! Real code runs on real OS threads, but exactly one simulated thread holds the baton at any
//! time and a seeded scheduler decides, at every *sync point*, who runs next. One seed is one
//! exactly repeatable interleaving. Time is virtual. See /verif/DESIGN.md section 3.1.
//!
//! The crate has no dependencies and no knowledge of the code under test.

use std::cell::RefCell;
use std::collections::BTreeMap;
use std::panic::{self, AssertUnwindSafe};
use std::sync::{Arc, Condvar, Mutex, MutexGuard};

pub mod rng;
pub use rng::Rng;

/// Scheduling strategy, drawn per run (swarm style).
#[derive(Clone, Debug, PartialEq)]
pub enum Strategy {
    /// Uniform among candidates at every sync point.
    Random,
    /// Stay on the current thread with probability `p_stay` (per mille), else uniform among others.
    Sticky(u32),
    /// PCT: random priorities, `d` priority-change points at random steps below `horizon`.
    Pct { d: u32, horizon: u64 },
    /// Switch to the next thread every `k` steps.
    RoundRobin(u32),
    /// Never pre-empt (default rule only): runs until block/finish. Used for replay.
    Default,
}

impl Strategy {
    pub fn name(&self) -> String {
        match self {
            Strategy::Random => "random".into(),
            Strategy::Sticky(p) => format!("sticky({})", *p as f64 / 1000.0),
            Strategy::Pct { d, .. } => format!("pct({})", d),
            Strategy::RoundRobin(k) => format!("rr({})", k),
            Strategy::Default => "default".into(),
        }
    }
    /// Draw a strategy from a seed stream.
    pub fn draw(r: &mut Rng, horizon: u64) -> Strategy {
        match r.below(10) {
            0 | 1 | 2 => Strategy::Random,
            3 => Strategy::Sticky(500),
            4 => Strategy::Sticky(800),
            5 => Strategy::Sticky(950),
            6 => Strategy::Pct { d: 1, horizon },
            7 => Strategy::Pct { d: 2, horizon },
            8 => Strategy::Pct { d: 3, horizon },
            _ => Strategy::RoundRobin(1 + r.below(4) as u32),
        }
    }
}

/// One deviation from the default scheduling rule: when thread `tid` made its `nth` scheduling
/// call, thread `to & 0xff` was chosen instead of the default (0xff = the default was chosen).
/// The upper bits carry an injected thread stall that begins at that decision: bits 8..16 hold
/// victim + 1 (0 = none) and bits 16..32 the number of steps it lasts.
#[derive(Clone, Copy, Debug, PartialEq, Eq, PartialOrd, Ord, Hash)]
pub struct Preempt {
    pub tid: u32,
    pub nth: u64,
    pub to: u32,
}

#[derive(Clone, Debug)]
pub struct Config {
    pub seed: u64,
    pub strategy: Strategy,
    pub max_steps: u64,
    /// When set, the schedule is forced: default rule plus these deviations.
    pub replay: Option<Vec<Preempt>>,
    /// Consecutive steps a thread may take while others are runnable before it is deprioritised.
    pub fairness: u32,
    pub record_trace: bool,
    /// Seed handed to code-under-test RNGs (via the hook).
    pub code_rng_seed: u64,
    /// Fault: per scheduling decision, the chance in a million that one runnable thread is
    /// *stalled* (not scheduled although runnable, as if descheduled by the OS) for a random number
    /// of steps. A stall is lifted early when nothing else can run. 0 = never. Stalls are recorded
    /// inside the pre-emption list (see `Preempt::to`) and therefore replay exactly.
    pub stall_ppm: u32,
}

impl Default for Config {
    fn default() -> Self {
        Config {
            seed: 1,
            strategy: Strategy::Random,
            max_steps: 200_000,
            replay: None,
            fairness: 200,
            record_trace: false,
            code_rng_seed: 0,
            stall_ppm: 0,
        }
    }
}

#[derive(Clone, Debug, PartialEq, Eq)]
pub enum End {
    Completed,
    Deadlock,
    StepBudget,
}

#[derive(Clone, Debug)]
pub struct TraceEv {
    pub step: u64,
    pub tid: u32,
    pub op: &'static str,
    pub file: &'static str,
    pub line: u32,
}

#[derive(Clone, Debug)]
pub struct RunResult {
    pub end: End,
    pub steps: u64,
    pub switches: u64,
    pub preemptions: Vec<Preempt>,
    /// Hash over the whole (tid, site) sequence: equal hashes = same interleaving.
    pub schedule_hash: u64,
    pub sim_nanos: u64,
    pub threads: u32,
    /// Panics caught in simulated threads: (tid, thread name, message).
    pub panics: Vec<(u32, String, String)>,
    pub probes: BTreeMap<&'static str, u64>,
    pub trace: Vec<TraceEv>,
    /// Replay deviations that never applied (non-empty = replay diverged).
    pub unused_replay: Vec<Preempt>,
    /// Thread stalls injected (fault kind `thread_stall`).
    pub stalls: u64,
}

#[derive(Clone, Copy, PartialEq, Debug)]
enum Status {
    Runnable,
    /// Runnable, but reported a spin iteration: deprioritised until another thread steps.
    Yielded,
    Blocked,
    Sleeping(u64),
    BlockedUntil(u64),
    Finished,
}

struct Th {
    name: String,
    status: Status,
    cv: Arc<Condvar>,
    calls: u64,
    prio: u64,
    timed_out: bool,
    daemon: bool,
}

struct State {
    threads: Vec<Th>,
    current: usize,
    steps: u64,
    switches: u64,
    consecutive: u32,
    clock: u64,
    rng: Rng,
    cfg: Config,
    replay_map: Option<BTreeMap<(u32, u64), u32>>,
    preemptions: Vec<Preempt>,
    hash: u64,
    aborted: Option<End>,
    panics: Vec<(u32, String, String)>,
    probes: BTreeMap<&'static str, u64>,
    trace: Vec<TraceEv>,
    pct_points: Vec<u64>,
    pct_low: u64,
    live: usize,
    passthrough: bool,
    os_handles: Vec<Option<std::thread::JoinHandle<()>>>,
    exiting: Vec<usize>,
    shutdown: bool,
    /// active stall: (victim, first step at which it may run again)
    stalled: Option<(usize, u64)>,
    /// a stall that began at the current decision, to be recorded with it: (victim, duration)
    stall_begun: Option<(usize, u64)>,
    stalls_fired: u64,
}

pub struct Sim {
    st: Mutex<State>,
    done: Condvar,
}

/// Payload used to unwind simulated threads when a run is aborted.
pub struct SimAbort;

thread_local! {
    static CTX: RefCell<Option<(Arc<Sim>, usize)>> = RefCell::new(None);
}

fn ctx() -> Option<(Arc<Sim>, usize)> {
    // a thread that is tearing down its thread-locals is, by definition, outside any simulation
    CTX.try_with(|c| c.borrow().clone()).ok().flatten()
}

/// True when the calling OS thread is a simulated thread of a live simulation.
pub fn in_sim() -> bool {
    CTX.try_with(|c| c.borrow().is_some()).unwrap_or(false)
}

/// Simulated thread id of the caller (0 = the scenario's main thread).
pub fn tid() -> u32 {
    ctx().map(|(_, t)| t as u32).unwrap_or(u32::MAX)
}

fn fnv(h: u64, x: u64) -> u64 {
    let mut h = h;
    for i in 0..8 {
        h ^= (x >> (i * 8)) & 0xff;
        h = h.wrapping_mul(0x100000001b3);
    }
    h
}

fn str_hash(s: &str) -> u64 {
    let mut h = 0xcbf29ce484222325u64;
    for b in s.bytes() {
        h ^= b as u64;
        h = h.wrapping_mul(0x100000001b3);
    }
    h
}

impl Sim {
    fn lock(&self) -> MutexGuard<'_, State> {
        self.st.lock().unwrap_or_else(|e| e.into_inner())
    }
}

enum Call {
    Step,
    Spin,
    Block,
    BlockUntil(u64),
    Sleep(u64),
    Finish,
}

impl State {
    fn candidates(&self) -> Vec<usize> {
        let mut c: Vec<usize> = Vec::new();
        for (i, t) in self.threads.iter().enumerate() {
            if t.status == Status::Runnable && !self.is_stalled(i) {
                c.push(i);
            }
        }
        c
    }

    fn is_stalled(&self, i: usize) -> bool {
        matches!(self.stalled, Some((v, until)) if v == i && self.steps < until)
    }

    /// Stall encoding inside `Preempt::to`: bits 0..8 the chosen thread (0xFF = the default
    /// choice), bits 8..16 victim + 1 (0 = no stall begins here), bits 16..32 the duration.
    fn maybe_begin_stall(&mut self, cur: usize) {
        self.stall_begun = None;
        if matches!(self.stalled, Some((_, until)) if self.steps >= until) {
            self.stalled = None;
        }
        let nth = self.threads[cur].calls;
        if let Some(map) = self.replay_map.as_ref() {
            if let Some(to) = map.get(&(cur as u32, nth)).copied() {
                let victim1 = ((to >> 8) & 0xff) as usize;
                if victim1 > 0 && victim1 - 1 < self.threads.len() {
                    let d = (to >> 16) as u64;
                    self.stalled = Some((victim1 - 1, self.steps + d));
                    self.stall_begun = Some((victim1 - 1, d));
                    self.stalls_fired += 1;
                }
            }
            return;
        }
        // (at most four stalls per run: a lock holder stalled over and over would let spinners burn
        // the run's whole step budget, which scenarios read as "never returns")
        if self.cfg.stall_ppm == 0 || self.stalled.is_some() || self.threads.len() > 200 || self.stalls_fired >= 4 {
            return;
        }
        if self.rng.below(1_000_000) < self.cfg.stall_ppm as u64 {
            let runnable: Vec<usize> = self.threads.iter().enumerate().filter(|(_, t)| matches!(t.status, Status::Runnable | Status::Yielded)).map(|(i, _)| i).collect();
            if runnable.len() >= 2 {
                let v = runnable[self.rng.below(runnable.len() as u64) as usize];
                let scale = [8u64, 40, 300, 3000][self.rng.below(4) as usize];
                let d = 3 + self.rng.below(scale);
                self.stalled = Some((v, self.steps + d));
                self.stall_begun = Some((v, d.min(65_535)));
                self.stalls_fired += 1;
            }
        }
    }

    /// Make time pass / un-yield until at least one thread is `Runnable`; false = nothing can run.
    fn ensure_candidates(&mut self) -> bool {
        loop {
            if self.threads.iter().enumerate().any(|(i, t)| t.status == Status::Runnable && !self.is_stalled(i)) {
                return true;
            }
            // A stall starves its victim of steps relative to threads that can run; it does not let
            // simulated time pass (sleepers and timeouts do not overtake a runnable thread).
            let any_yielded_free = self.threads.iter().enumerate().any(|(i, t)| t.status == Status::Yielded && !self.is_stalled(i));
            if !any_yielded_free {
                if let Some((v, _)) = self.stalled {
                    if matches!(self.threads[v].status, Status::Runnable | Status::Yielded) {
                        self.stalled = None;
                        continue;
                    }
                }
            }
            // Next timer.
            let mut next: Option<u64> = None;
            for t in &self.threads {
                match t.status {
                    Status::Sleeping(w) | Status::BlockedUntil(w) => {
                        next = Some(next.map_or(w, |n: u64| n.min(w)));
                    }
                    _ => {}
                }
            }
            let any_yielded = self.threads.iter().any(|t| t.status == Status::Yielded);
            if let Some(w) = next {
                // Spinners with a pending timer: let time pass (the spinner is waiting for it).
                if w > self.clock {
                    self.clock = w;
                }
                for t in self.threads.iter_mut() {
                    match t.status {
                        Status::Sleeping(x) if x <= w => t.status = Status::Runnable,
                        Status::BlockedUntil(x) if x <= w => {
                            t.status = Status::Runnable;
                            t.timed_out = true;
                        }
                        _ => {}
                    }
                }
                if any_yielded {
                    for t in self.threads.iter_mut() {
                        if t.status == Status::Yielded {
                            t.status = Status::Runnable;
                        }
                    }
                }
                continue;
            }
            if any_yielded {
                // (a spinner waiting for a stalled thread spins again: that is the point of a stall;
                // it ends by itself after its number of steps)
                let stalled_yielded_only = self.threads.iter().enumerate().all(|(i, t)| t.status != Status::Yielded || self.is_stalled(i));
                if stalled_yielded_only {
                    self.stalled = None;
                }
                for t in self.threads.iter_mut() {
                    if t.status == Status::Yielded {
                        t.status = Status::Runnable;
                    }
                }
                continue;
            }
            // only the stalled thread could run: the stall is over
            if self.stalled.is_some() {
                self.stalled = None;
                continue;
            }
            return false;
        }
    }

    fn default_choice(&self, cur: usize, cands: &[usize], forced_switch: bool) -> usize {
        if !forced_switch && cands.contains(&cur) {
            return cur;
        }
        // next candidate cyclically after cur
        let n = self.threads.len();
        for off in 1..=n {
            let i = (cur + off) % n;
            if cands.contains(&i) {
                return i;
            }
        }
        cands[0]
    }

    fn choose(&mut self, cur: usize, cands: &[usize], forced_switch: bool) -> usize {
        let nth = self.threads[cur].calls;
        let def = self.default_choice(cur, cands, forced_switch);
        if cands.len() == 1 {
            if let Some((v, d)) = self.stall_begun.take() {
                let bits = (((v as u32) + 1) << 8) | ((d as u32) << 16);
                if let Some(map) = self.replay_map.as_mut() {
                    map.remove(&(cur as u32, nth));
                }
                self.preemptions.push(Preempt { tid: cur as u32, nth, to: 0xff | bits });
            }
            return cands[0];
        }
        let chosen = if let Some(map) = self.replay_map.as_mut() {
            match map.get(&(cur as u32, nth)).copied() {
                Some(to) if (to & 0xff) == 0xff && (to >> 8) != 0 => {
                    // only a stall begins here; the choice is the default one
                    map.remove(&(cur as u32, nth));
                    def
                }
                Some(to) if cands.contains(&((to & 0xff) as usize)) => {
                    map.remove(&(cur as u32, nth));
                    (to & 0xff) as usize
                }
                _ => def,
            }
        } else {
            let others: Vec<usize> =
                if forced_switch { cands.iter().copied().filter(|&c| c != cur).collect() } else { cands.to_vec() };
            let pool: &[usize] = if others.is_empty() { cands } else { &others };
            match self.cfg.strategy.clone() {
                Strategy::Default => def,
                Strategy::Random => pool[self.rng.below(pool.len() as u64) as usize],
                Strategy::Sticky(p) => {
                    if pool.contains(&cur) && self.rng.below(1000) < p as u64 {
                        cur
                    } else {
                        let o: Vec<usize> = pool.iter().copied().filter(|&c| c != cur).collect();
                        if o.is_empty() {
                            pool[0]
                        } else {
                            o[self.rng.below(o.len() as u64) as usize]
                        }
                    }
                }
                Strategy::RoundRobin(k) => {
                    if pool.contains(&cur) && (self.consecutive as u64) < k as u64 {
                        cur
                    } else {
                        self.default_choice(cur, pool, true)
                    }
                }
                Strategy::Pct { .. } => {
                    if self.pct_points.contains(&self.steps) {
                        self.pct_low = self.pct_low.saturating_sub(1);
                        self.threads[cur].prio = self.pct_low;
                    }
                    let mut best = pool[0];
                    for &c in pool {
                        if self.threads[c].prio > self.threads[best].prio {
                            best = c;
                        }
                    }
                    best
                }
            }
        };
        let stall_bits = match self.stall_begun.take() {
            Some((v, d)) => (((v as u32) + 1) << 8) | ((d as u32) << 16),
            None => 0,
        };
        if chosen != def {
            self.preemptions.push(Preempt { tid: cur as u32, nth, to: (chosen as u32) | stall_bits });
        } else if stall_bits != 0 {
            self.preemptions.push(Preempt { tid: cur as u32, nth, to: 0xff | stall_bits });
        }
        chosen
    }
}

impl Sim {
    /// The heart: called by the thread holding the baton. Chooses the next thread, hands the
    /// baton over and waits until it comes back (unless the caller finished).
    fn schedule(self: &Arc<Self>, me: usize, call: Call, op: &'static str, file: &'static str, line: u32) {
        let mut st = self.lock();
        if st.passthrough {
            drop(st);
            match call {
                Call::Spin => std::thread::yield_now(),
                _ => {}
            }
            return;
        }
        if st.aborted.is_some() || st.shutdown {
            drop(st);
            abort_unwind();
            return;
        }
        debug_assert_eq!(st.current, me, "thread without baton reached a sync point");
        st.steps += 1;
        st.threads[me].calls += 1;
        let step = st.steps;
        st.hash = fnv(fnv(fnv(st.hash, me as u64), line as u64), str_hash(op) ^ str_hash(file));
        if st.cfg.record_trace {
            st.trace.push(TraceEv { step, tid: me as u32, op, file, line });
        }
        if st.steps > st.cfg.max_steps {
            st.aborted = Some(End::StepBudget);
            self.release_all(&mut st);
            drop(st);
            abort_unwind();
            return;
        }
        let mut forced = false;
        match call {
            Call::Step => {}
            Call::Spin => {
                st.threads[me].status = Status::Yielded;
                // PCT: a yield is a priority change point, otherwise two high-priority spinners
                // ping-pong and starve the thread they are waiting for.
                if matches!(st.cfg.strategy, Strategy::Pct { .. }) && st.replay_map.is_none() {
                    st.pct_low = st.pct_low.saturating_sub(1);
                    st.threads[me].prio = st.pct_low;
                }
            }
            Call::Block => st.threads[me].status = Status::Blocked,
            Call::BlockUntil(t) => {
                st.threads[me].timed_out = false;
                st.threads[me].status = Status::BlockedUntil(t)
            }
            Call::Sleep(t) => st.threads[me].status = Status::Sleeping(t),
            Call::Finish => {
                st.threads[me].status = Status::Finished;
                st.live -= 1;
            }
        }
        if st.threads[me].status == Status::Runnable {
            st.consecutive += 1;
            if st.consecutive > st.cfg.fairness
                && st.threads.iter().enumerate().any(|(i, t)| i != me && matches!(t.status, Status::Runnable | Status::Yielded))
            {
                forced = true;
                // Let yielded threads compete again.
                for t in st.threads.iter_mut() {
                    if t.status == Status::Yielded {
                        t.status = Status::Runnable;
                    }
                }
            }
        }
        st.maybe_begin_stall(me);
        if !st.ensure_candidates() {
            if st.live == 0 {
                self.done.notify_all();
                return;
            }
            st.aborted = Some(End::Deadlock);
            self.release_all(&mut st);
            drop(st);
            if !matches!(call, Call::Finish) {
                abort_unwind();
            }
            return;
        }
        let cands = st.candidates();
        let next = st.choose(me, &cands, forced);
        if next != me {
            st.switches += 1;
            st.consecutive = 0;
            // A step by another thread lets yielded threads compete again.
            for (i, t) in st.threads.iter_mut().enumerate() {
                if i != next && t.status == Status::Yielded {
                    t.status = Status::Runnable;
                }
            }
            st.current = next;
            let cv = st.threads[next].cv.clone();
            cv.notify_one();
            if matches!(call, Call::Finish) {
                return;
            }
            let mycv = st.threads[me].cv.clone();
            while st.current != me && st.aborted.is_none() && !st.shutdown {
                st = mycv.wait(st).unwrap_or_else(|e| e.into_inner());
            }
            if st.aborted.is_some() || st.shutdown {
                drop(st);
                abort_unwind();
            }
        } else if st.threads[me].status == Status::Yielded {
            st.threads[me].status = Status::Runnable;
        }
    }

    /// Controller side of a thread's end: account the step, wake joiners, pass the baton on.
    fn finish_and_handoff(&self, st: &mut State, me: usize) {
        if st.threads[me].status == Status::Finished {
            return;
        }
        if st.aborted.is_some() {
            st.threads[me].status = Status::Finished;
            st.live -= 1;
            return;
        }
        st.steps += 1;
        st.threads[me].calls += 1;
        let step = st.steps;
        st.hash = fnv(fnv(fnv(st.hash, me as u64), 0), str_hash("finish"));
        if st.cfg.record_trace {
            st.trace.push(TraceEv { step, tid: me as u32, op: "finish", file: "", line: 0 });
        }
        st.threads[me].status = Status::Finished;
        st.live -= 1;
        if st.live > 0 && st.threads.iter().all(|t| t.status == Status::Finished || t.daemon) {
            // only daemon threads (started by the code under test) are left: end of the run
            st.shutdown = true;
            self.release_all(st);
            return;
        }
        for t in st.threads.iter_mut() {
            if matches!(t.status, Status::Blocked | Status::BlockedUntil(_)) {
                t.status = Status::Runnable;
                t.timed_out = false;
            }
        }
        if !st.ensure_candidates() {
            if st.live > 0 {
                st.aborted = Some(End::Deadlock);
                self.release_all(st);
            }
            return;
        }
        let cands = st.candidates();
        let next = st.choose(me, &cands, false);
        st.switches += 1;
        st.consecutive = 0;
        for (i, t) in st.threads.iter_mut().enumerate() {
            if i != next && t.status == Status::Yielded {
                t.status = Status::Runnable;
            }
        }
        st.current = next;
        st.threads[next].cv.notify_one();
    }

    fn release_all(&self, st: &mut State) {
        for t in st.threads.iter() {
            t.cv.notify_all();
        }
        self.done.notify_all();
    }
}

fn abort_unwind() {
    if !std::thread::panicking() {
        panic::resume_unwind(Box::new(SimAbort));
    }
}

// ---------------------------------------------------------------------------------------------
// Public API used from inside a simulation.

/// A sync point: the scheduler may switch to another thread here.
#[inline]
pub fn sync_point(op: &'static str, file: &'static str, line: u32) {
    if let Some((sim, me)) = ctx() {
        sim.schedule(me, Call::Step, op, file, line);
    }
}

/// A harness-level sync point.
#[track_caller]
pub fn point(op: &'static str) {
    let l = std::panic::Location::caller();
    sync_point(op, l.file(), l.line());
}

/// A busy-wait iteration: another thread must get a chance before the caller continues.
pub fn spin(op: &'static str, file: &'static str, line: u32) {
    match ctx() {
        Some((sim, me)) => sim.schedule(me, Call::Spin, op, file, line),
        None => std::thread::yield_now(),
    }
}

/// Park until `notify_all` is called by another simulated thread.
#[track_caller]
pub fn wait(op: &'static str) {
    let l = std::panic::Location::caller();
    if let Some((sim, me)) = ctx() {
        sim.schedule(me, Call::Block, op, l.file(), l.line());
    } else {
        std::thread::yield_now();
    }
}

/// Park until notified or until the simulated clock reaches `now + nanos`; true = timed out.
#[track_caller]
pub fn wait_timeout(op: &'static str, nanos: u64) -> bool {
    let l = std::panic::Location::caller();
    if let Some((sim, me)) = ctx() {
        let until = sim.lock().clock.saturating_add(nanos);
        sim.schedule(me, Call::BlockUntil(until), op, l.file(), l.line());
        let st = sim.lock();
        st.threads[me].timed_out
    } else {
        std::thread::yield_now();
        false
    }
}

/// Wake every thread parked in `wait`/`wait_timeout` (they re-check their condition).
pub fn notify_all() {
    if let Some((sim, _)) = ctx() {
        let mut st = sim.lock();
        for t in st.threads.iter_mut() {
            if matches!(t.status, Status::Blocked | Status::BlockedUntil(_)) {
                t.status = Status::Runnable;
                t.timed_out = false;
            }
        }
    }
}

/// Sleep on the simulated clock.
#[track_caller]
pub fn sleep(nanos: u64) {
    let l = std::panic::Location::caller();
    if let Some((sim, me)) = ctx() {
        let until = sim.lock().clock.saturating_add(nanos);
        sim.schedule(me, Call::Sleep(until), "sleep", l.file(), l.line());
    }
}

/// Simulated monotonic clock (ns).
pub fn now() -> u64 {
    ctx().map(|(s, _)| s.lock().clock).unwrap_or(0)
}

/// Advance the simulated clock explicitly (no thread switch).
pub fn advance(nanos: u64) {
    if let Some((sim, _)) = ctx() {
        let mut st = sim.lock();
        st.clock = st.clock.saturating_add(nanos);
    }
}

/// Global step counter: a total order on everything that happens in the run.
pub fn step() -> u64 {
    ctx().map(|(s, _)| s.lock().steps).unwrap_or(0)
}

pub fn probe(name: &'static str) {
    if let Some((sim, _)) = ctx() {
        *sim.lock().probes.entry(name).or_insert(0) += 1;
    }
}

pub fn code_rng_seed() -> Option<u64> {
    ctx().map(|(s, me)| {
        let st = s.lock();
        rng::splitmix(st.cfg.code_rng_seed ^ (me as u64).wrapping_mul(0x9E3779B97F4A7C15))
    })
}

/// While the returned guard lives, sync points of the whole simulation are no-ops (set-up
/// phases such as pre-filling). Only valid while a single simulated thread is active.
pub fn passthrough(on: bool) {
    if let Some((sim, _)) = ctx() {
        sim.lock().passthrough = on;
    }
}

pub struct JoinHandle {
    tid: usize,
}

impl JoinHandle {
    pub fn tid(&self) -> u32 {
        self.tid as u32
    }
    /// Block (in simulated terms) until the thread has finished.
    pub fn join(self) {
        let (sim, _) = ctx().expect("join outside simulation");
        loop {
            {
                let st = sim.lock();
                if st.threads[self.tid].status == Status::Finished {
                    return;
                }
            }
            wait("join");
        }
    }
    pub fn is_finished(&self) -> bool {
        let (sim, _) = ctx().expect("outside simulation");
        let st = sim.lock();
        st.threads[self.tid].status == Status::Finished
    }
}

/// Spawn a simulated thread (a fresh OS thread). It becomes runnable immediately; the caller
/// keeps the baton until its next sync point.
pub fn spawn<F>(name: &str, f: F) -> JoinHandle
where
    F: FnOnce() + Send + 'static,
{
    let (sim, _) = ctx().expect("spawn outside simulation");
    let tid = start_thread(&sim, name, false, Box::new(f));
    JoinHandle { tid }
}

fn start_thread(sim: &Arc<Sim>, name: &str, daemon: bool, f: Box<dyn FnOnce() + Send + 'static>) -> usize {
    let tid;
    let cv = Arc::new(Condvar::new());
    {
        let mut st = sim.lock();
        tid = st.threads.len();
        let prio = (1u64 << 40) + st.rng_prio();
        st.threads.push(Th { name: name.to_string(), status: Status::Runnable, cv: cv.clone(), calls: 0, prio, timed_out: false, daemon });
        st.live += 1;
    }
    let sim2 = sim.clone();
    let tname = name.to_string();
    let sim3 = sim.clone();
    let h = std::thread::Builder::new()
        .name(format!("sim-{}", name))
        .stack_size(1 << 20)
        .spawn(move || {
            // Wait for the baton.
            {
                let mut st = sim2.lock();
                while st.current != tid && st.aborted.is_none() && !st.shutdown {
                    st = cv.wait(st).unwrap_or_else(|e| e.into_inner());
                }
                if st.aborted.is_some() || st.shutdown {
                    st.threads[tid].status = Status::Finished;
                    st.live -= 1;
                    sim2.done.notify_all();
                    return;
                }
            }
            CTX.with(|c| *c.borrow_mut() = Some((sim2.clone(), tid)));
            let r = panic::catch_unwind(AssertUnwindSafe(f));
            let mut aborted_unwind = false;
            if let Err(p) = r {
                if p.is::<SimAbort>() {
                    aborted_unwind = true;
                } else {
                    let msg = if let Some(s) = p.downcast_ref::<&str>() {
                        s.to_string()
                    } else if let Some(s) = p.downcast_ref::<String>() {
                        s.clone()
                    } else {
                        "<non-string panic>".to_string()
                    };
                    let loc = LAST_PANIC_LOC.with(|l| l.borrow_mut().take()).unwrap_or_default();
                    sim2.lock().panics.push((tid as u32, tname.clone(), format!("{} @ {}", msg, loc)));
                }
            }
            let aborted = { let st = sim2.lock(); st.aborted.is_some() || st.shutdown };
            if aborted || aborted_unwind {
                let mut st = sim2.lock();
                if st.threads[tid].status != Status::Finished {
                    st.threads[tid].status = Status::Finished;
                    st.live -= 1;
                }
                sim2.done.notify_all();
            } else {
                // Keep the baton while this OS thread dies: its thread-local destructors (e.g.
                // crossbeam-epoch's per-thread handle) must not run concurrently with another
                // simulated thread. The controller joins this thread, then passes the baton on.
                let mut st = sim2.lock();
                st.exiting.push(tid);
                sim2.done.notify_all();
            }
            CTX.with(|c| *c.borrow_mut() = None);
        })
        .expect("spawn OS thread");
    {
        let mut st = sim3.lock();
        while st.os_handles.len() <= tid {
            st.os_handles.push(None);
        }
        st.os_handles[tid] = Some(h);
    }
    tid
}

impl State {
    fn rng_prio(&mut self) -> u64 {
        self.rng.below(1_000_000)
    }
}

thread_local! {
    static LAST_PANIC_LOC: RefCell<Option<String>> = RefCell::new(None);
}

/// Install a process-wide panic hook that keeps simulated threads quiet (their panics are
/// recorded in the run result) and leaves other threads' panics to the previous hook.
pub fn install_quiet_panic_hook() {
    let prev = panic::take_hook();
    panic::set_hook(Box::new(move |info| {
        if in_sim() {
            let loc = info.location().map(|l| format!("{}:{}", l.file(), l.line())).unwrap_or_default();
            LAST_PANIC_LOC.with(|l| *l.borrow_mut() = Some(loc));
        } else {
            prev(info);
        }
    }));
}

/// Adopt a closure as a new simulated thread from code under test (hook `spawn`).
pub fn adopt_thread(name: &str, f: Box<dyn FnOnce() + Send + 'static>) -> Option<Box<dyn FnOnce() + Send + 'static>> {
    match ctx() {
        Some((sim, _)) => {
            // threads started by the code under test are daemons: the run ends when the scenario's
            // own threads are done, and daemons are unwound at their next scheduling point
            start_thread(&sim, name, true, f);
            None
        }
        None => Some(f),
    }
}

/// Run one simulation: `main` becomes simulated thread 0. Returns when every simulated thread
/// has finished (or the run was aborted on deadlock / step budget).
pub fn run<F>(cfg: Config, main: F) -> RunResult
where
    F: FnOnce() + Send + 'static,
{
    let mut rng = Rng::new(cfg.seed);
    let mut pct_points = Vec::new();
    if let Strategy::Pct { d, horizon } = cfg.strategy {
        for _ in 0..d {
            pct_points.push(1 + rng.below(horizon.max(2)));
        }
    }
    let replay_map = cfg.replay.as_ref().map(|v| v.iter().map(|p| ((p.tid, p.nth), p.to)).collect());
    let sim = Arc::new(Sim {
        st: Mutex::new(State {
            threads: Vec::new(),
            current: 0,
            steps: 0,
            switches: 0,
            consecutive: 0,
            clock: 0,
            rng,
            cfg,
            replay_map,
            preemptions: Vec::new(),
            hash: 0xcbf29ce484222325,
            aborted: None,
            panics: Vec::new(),
            probes: BTreeMap::new(),
            trace: Vec::new(),
            pct_points,
            // demoted priorities count down from here; they must stay below every initial priority
            // (1 << 40 + random) and never run out within any step budget: with only 1000 of them a
            // stalled lock holder let two spinners use them up, after which all ties went to the
            // spinners and the holder starved (seen once in 800 000 thorough runs of C07)
            pct_low: (1u64 << 40) - 1,
            live: 0,
            passthrough: false,
            os_handles: Vec::new(),
            exiting: Vec::new(),
            shutdown: false,
            stalled: None,
            stall_begun: None,
            stalls_fired: 0,
        }),
        done: Condvar::new(),
    });
    start_thread(&sim, "main", false, Box::new(main));
    // thread 0 holds the baton from the start (current == 0).
    {
        let st = sim.lock();
        st.threads[0].cv.notify_all();
    }
    let mut st = sim.lock();
    loop {
        if let Some(tid) = st.exiting.pop() {
            let h = st.os_handles.get_mut(tid).and_then(|h| h.take());
            drop(st);
            if let Some(h) = h {
                let _ = h.join();
            }
            st = sim.lock();
            sim.finish_and_handoff(&mut st, tid);
            continue;
        }
        if st.live == 0 {
            break;
        }
        st = sim.done.wait(st).unwrap_or_else(|e| e.into_inner());
    }
    // Wait for every remaining OS thread to be really gone (aborted runs).
    loop {
        let hs: Vec<std::thread::JoinHandle<()>> = st.os_handles.iter_mut().filter_map(|h| h.take()).collect();
        if hs.is_empty() {
            break;
        }
        drop(st);
        for h in hs {
            let _ = h.join();
        }
        st = sim.lock();
    }
    let end = st.aborted.clone().unwrap_or(End::Completed);
    let unused = st
        .replay_map
        .as_ref()
        .map(|m| m.iter().map(|(&(tid, nth), &to)| Preempt { tid, nth, to }).collect())
        .unwrap_or_default();
    RunResult {
        end,
        steps: st.steps,
        switches: st.switches,
        preemptions: std::mem::take(&mut st.preemptions),
        schedule_hash: st.hash,
        sim_nanos: st.clock,
        threads: st.threads.len() as u32,
        panics: std::mem::take(&mut st.panics),
        probes: std::mem::take(&mut st.probes),
        trace: std::mem::take(&mut st.trace),
        unused_replay: unused,
        stalls: st.stalls_fired,
    }
}

/// Thread names by tid (for reports).
pub fn thread_name(tid: u32) -> String {
    ctx().map(|(s, _)| s.lock().threads.get(tid as usize).map(|t| t.name.clone()).unwrap_or_default()).unwrap_or_default()
}

/// Join handle of a simulated thread that returns a value.
pub struct JoinHandleV<T> {
    h: JoinHandle,
    slot: Arc<Mutex<Option<T>>>,
}

impl<T> JoinHandleV<T> {
    /// Blocks (in simulated terms) until the thread has finished; panics if it panicked.
    pub fn join(self) -> T {
        self.h.join();
        let v = self.slot.lock().unwrap().take();
        v.expect("simulated thread did not produce a value (it panicked)")
    }
}

/// Spawn a simulated thread whose closure returns a value.
pub fn spawn_v<T, F>(name: &str, f: F) -> JoinHandleV<T>
where
    T: Send + 'static,
    F: FnOnce() -> T + Send + 'static,
{
    let slot: Arc<Mutex<Option<T>>> = Arc::new(Mutex::new(None));
    let s2 = slot.clone();
    let h = spawn(name, move || {
        let v = f();
        *s2.lock().unwrap() = Some(v);
    });
    JoinHandleV { h, slot }
}
