//! SplitMix64-based seed expansion: one integer decides everything.

pub fn splitmix(x: u64) -> u64 {
    let mut z = x.wrapping_add(0x9E3779B97F4A7C15);
    z = (z ^ (z >> 30)).wrapping_mul(0xBF58476D1CE4E5B9);
    z = (z ^ (z >> 27)).wrapping_mul(0x94D049BB133111EB);
    z ^ (z >> 31)
}

#[derive(Clone, Debug)]
pub struct Rng {
    s: u64,
}

impl Rng {
    pub fn new(seed: u64) -> Self {
        Rng { s: splitmix(seed ^ 0xD1B54A32D192ED03) }
    }
    /// Independent stream derived from this seed and a label (does not advance `self`).
    pub fn stream(seed: u64, label: &str) -> Self {
        let mut h = 0xcbf29ce484222325u64;
        for b in label.bytes() {
            h ^= b as u64;
            h = h.wrapping_mul(0x100000001b3);
        }
        Rng::new(splitmix(seed) ^ h)
    }
    pub fn next_u64(&mut self) -> u64 {
        self.s = self.s.wrapping_add(0x9E3779B97F4A7C15);
        let mut z = self.s;
        z = (z ^ (z >> 30)).wrapping_mul(0xBF58476D1CE4E5B9);
        z = (z ^ (z >> 27)).wrapping_mul(0x94D049BB133111EB);
        z ^ (z >> 31)
    }
    /// Uniform in `0..n` (n > 0).
    pub fn below(&mut self, n: u64) -> u64 {
        if n <= 1 {
            return 0;
        }
        // Multiply-shift; bias is negligible for the small n used here.
        ((self.next_u64() as u128 * n as u128) >> 64) as u64
    }
    pub fn range(&mut self, lo: u64, hi_incl: u64) -> u64 {
        lo + self.below(hi_incl - lo + 1)
    }
    /// True with probability `per_mille`/1000.
    pub fn chance(&mut self, per_mille: u64) -> bool {
        self.below(1000) < per_mille
    }
    pub fn pick<'a, T>(&mut self, xs: &'a [T]) -> &'a T {
        &xs[self.below(xs.len() as u64) as usize]
    }
    pub fn shuffle<T>(&mut self, xs: &mut [T]) {
        for i in (1..xs.len()).rev() {
            let j = self.below(i as u64 + 1) as usize;
            xs.swap(i, j);
        }
    }
}
