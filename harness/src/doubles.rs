//! Recorder doubles: log everything, carry flags and drop counters. Owned by the harness beyond
//! their logical scope so that a dispatch to an "ended" recorder is observed, not UB.

use metrics::{Counter, CounterFn, Gauge, GaugeFn, Histogram, HistogramFn, Key, KeyName, Metadata, Recorder, SharedString, Unit};
use std::sync::atomic::{AtomicBool, AtomicI64, AtomicU64, Ordering};
use std::sync::{Arc, Mutex};

#[derive(Clone, Debug, PartialEq)]
pub struct Ev {
    pub rec: u32,
    pub tid: u32,
    pub step: u64,
    pub op: String,
    pub name: String,
    pub labels: Vec<(String, String)>,
    pub level: String,
    pub target: String,
    pub module: Option<String>,
    pub unit: Option<String>,
    pub desc: String,
    pub value: String,
    /// flags at the time of the call
    pub in_scope: bool,
    pub finalised: bool,
}

pub type Log = Arc<Mutex<Vec<Ev>>>;

pub struct Shared {
    pub log: Log,
    pub in_flight: AtomicI64,
    pub max_in_flight: AtomicI64,
    pub in_scope: AtomicBool,
    pub finalised: AtomicBool,
    pub drops: AtomicU64,
    /// When set, every recorder entry point passes a harness sync point while "inside".
    pub yield_inside: AtomicBool,
    /// Fault: the next recorder entry point reached by one of these simulated threads panics
    /// (payload `DoublePanic`) before it logs anything.
    pub panic_next: Mutex<Vec<u32>>,
    /// Fault: the next recorder entry point reached by one of these simulated threads emits a
    /// metric of its own through the macros once it has logged the call (a self-instrumented
    /// recorder).
    pub reenter_next: Mutex<Vec<u32>>,
    /// Fault: the next recorder entry point sleeps this many nanoseconds of virtual time inside.
    pub sleep_inside_ns: AtomicU64,
    /// Fault: the next recorder entry point passes this many scheduling points inside (a call
    /// that is long in steps, not in time: whoever polls for its end polls that often).
    pub busy_inside: AtomicU64,
}

/// Payload of an injected recorder panic.
pub struct DoublePanic;

/// Arms a per-thread fault flag.
pub fn set_flag(f: &Mutex<Vec<u32>>, tid: u32) {
    let mut g = f.lock().unwrap();
    if !g.contains(&tid) {
        g.push(tid);
    }
}
/// Disarms it; true if it was still armed (= the fault did not fire).
pub fn take_flag(f: &Mutex<Vec<u32>>, tid: u32) -> bool {
    let mut g = f.lock().unwrap();
    match g.iter().position(|t| *t == tid) {
        Some(i) => {
            g.remove(i);
            true
        }
        None => false,
    }
}

impl Shared {
    pub fn new(log: Log) -> Arc<Self> {
        Arc::new(Shared {
            log,
            in_flight: AtomicI64::new(0),
            max_in_flight: AtomicI64::new(0),
            in_scope: AtomicBool::new(true),
            finalised: AtomicBool::new(false),
            drops: AtomicU64::new(0),
            yield_inside: AtomicBool::new(false),
            panic_next: Mutex::new(vec![]),
            reenter_next: Mutex::new(vec![]),
            sleep_inside_ns: AtomicU64::new(0),
            busy_inside: AtomicU64::new(0),
        })
    }
}

pub struct LogRecorder {
    pub id: u32,
    pub check_a: u64,
    pub check_b: u64,
    pub shared: Arc<Shared>,
}

impl LogRecorder {
    pub fn new(id: u32, shared: Arc<Shared>) -> Self {
        LogRecorder { id, check_a: 0xA5A5_0000_0000_0000 | id as u64, check_b: !(0xA5A5_0000_0000_0000 | id as u64), shared }
    }
    pub fn intact(&self) -> bool {
        self.check_a == (0xA5A5_0000_0000_0000 | self.id as u64) && self.check_b == !self.check_a
    }
    fn enter(&self) {
        if take_flag(&self.shared.panic_next, dsim::tid()) {
            std::panic::resume_unwind(Box::new(DoublePanic));
        }
        let n = self.shared.in_flight.fetch_add(1, Ordering::SeqCst) + 1;
        self.shared.max_in_flight.fetch_max(n, Ordering::SeqCst);
        if self.shared.yield_inside.load(Ordering::SeqCst) {
            dsim::point("double.inside");
        }
        let ns = self.shared.sleep_inside_ns.swap(0, Ordering::SeqCst);
        if ns > 0 {
            dsim::sleep(ns);
        }
        let busy = self.shared.busy_inside.swap(0, Ordering::SeqCst);
        for _ in 0..busy {
            dsim::point("double.busy");
        }
    }
    fn leave(&self) {
        self.shared.in_flight.fetch_sub(1, Ordering::SeqCst);
        if take_flag(&self.shared.reenter_next, dsim::tid()) {
            metrics::counter!("nested_emission").increment(1);
        }
    }
    fn log(&self, op: &str, name: &str, labels: Vec<(String, String)>, md: Option<&Metadata<'_>>, unit: Option<Unit>, desc: &str) {
        let ev = Ev {
            rec: self.id,
            tid: dsim::tid(),
            step: dsim::step(),
            op: op.to_string(),
            name: name.to_string(),
            labels,
            level: md.map(|m| format!("{:?}", m.level())).unwrap_or_default(),
            target: md.map(|m| m.target().to_string()).unwrap_or_default(),
            module: md.and_then(|m| m.module_path().map(|s| s.to_string())),
            unit: unit.map(|u| u.as_str().to_string()),
            desc: desc.to_string(),
            value: if self.intact() { String::new() } else { "CORRUPT".to_string() },
            in_scope: self.shared.in_scope.load(Ordering::SeqCst),
            finalised: self.shared.finalised.load(Ordering::SeqCst),
        };
        self.shared.log.lock().unwrap().push(ev);
    }
}

impl Drop for LogRecorder {
    fn drop(&mut self) {
        self.shared.finalised.store(true, Ordering::SeqCst);
        self.shared.drops.fetch_add(1, Ordering::SeqCst);
    }
}

fn labels_of(key: &Key) -> Vec<(String, String)> {
    key.labels().map(|l| (l.key().to_string(), l.value().to_string())).collect()
}

pub struct LogHandle {
    pub rec: u32,
    pub name: String,
    pub labels: Vec<(String, String)>,
    pub shared: Arc<Shared>,
}

impl LogHandle {
    fn log(&self, op: &str, value: String) {
        let ev = Ev {
            rec: self.rec,
            tid: dsim::tid(),
            step: dsim::step(),
            op: op.to_string(),
            name: self.name.clone(),
            labels: self.labels.clone(),
            level: String::new(),
            target: String::new(),
            module: None,
            unit: None,
            desc: String::new(),
            value,
            in_scope: self.shared.in_scope.load(Ordering::SeqCst),
            finalised: self.shared.finalised.load(Ordering::SeqCst),
        };
        self.shared.log.lock().unwrap().push(ev);
    }
}

impl CounterFn for LogHandle {
    fn increment(&self, value: u64) {
        self.log("counter.increment", value.to_string());
    }
    fn absolute(&self, value: u64) {
        self.log("counter.absolute", value.to_string());
    }
}
impl GaugeFn for LogHandle {
    fn increment(&self, value: f64) {
        self.log("gauge.increment", format!("{:016x}", value.to_bits()));
    }
    fn decrement(&self, value: f64) {
        self.log("gauge.decrement", format!("{:016x}", value.to_bits()));
    }
    fn set(&self, value: f64) {
        self.log("gauge.set", format!("{:016x}", value.to_bits()));
    }
}
impl HistogramFn for LogHandle {
    fn record(&self, value: f64) {
        self.log("histogram.record", format!("{:016x}", value.to_bits()));
    }
}

impl Recorder for LogRecorder {
    fn describe_counter(&self, key: KeyName, unit: Option<Unit>, description: SharedString) {
        self.enter();
        self.log("describe_counter", key.as_str(), vec![], None, unit, &description);
        self.leave();
    }
    fn describe_gauge(&self, key: KeyName, unit: Option<Unit>, description: SharedString) {
        self.enter();
        self.log("describe_gauge", key.as_str(), vec![], None, unit, &description);
        self.leave();
    }
    fn describe_histogram(&self, key: KeyName, unit: Option<Unit>, description: SharedString) {
        self.enter();
        self.log("describe_histogram", key.as_str(), vec![], None, unit, &description);
        self.leave();
    }
    fn register_counter(&self, key: &Key, metadata: &Metadata<'_>) -> Counter {
        self.enter();
        self.log("register_counter", key.name(), labels_of(key), Some(metadata), None, "");
        self.leave();
        Counter::from_arc(Arc::new(LogHandle { rec: self.id, name: key.name().to_string(), labels: labels_of(key), shared: self.shared.clone() }))
    }
    fn register_gauge(&self, key: &Key, metadata: &Metadata<'_>) -> Gauge {
        self.enter();
        self.log("register_gauge", key.name(), labels_of(key), Some(metadata), None, "");
        self.leave();
        Gauge::from_arc(Arc::new(LogHandle { rec: self.id, name: key.name().to_string(), labels: labels_of(key), shared: self.shared.clone() }))
    }
    fn register_histogram(&self, key: &Key, metadata: &Metadata<'_>) -> Histogram {
        self.enter();
        self.log("register_histogram", key.name(), labels_of(key), Some(metadata), None, "");
        self.leave();
        Histogram::from_arc(Arc::new(LogHandle { rec: self.id, name: key.name().to_string(), labels: labels_of(key), shared: self.shared.clone() }))
    }
}

pub fn new_log() -> Log {
    Arc::new(Mutex::new(Vec::new()))
}
