pub fn hash_str(s: &str) -> u64 {
    let mut h = 0xcbf29ce484222325u64;
    for b in s.bytes() {
        h ^= b as u64;
        h = h.wrapping_mul(0x100000001b3);
    }
    h
}
pub fn hash_u64(h: u64, x: u64) -> u64 {
    let mut h = h ^ 0x9E3779B97F4A7C15;
    for i in 0..8 {
        h ^= (x >> (i * 8)) & 0xff;
        h = h.wrapping_mul(0x100000001b3);
    }
    h
}
