//! Scenario contract, seeded batch driver, minimiser, replay files, evidence.

use dsim::{Config, End, Preempt, Rng, RunResult, Strategy};
use serde::{de::DeserializeOwned, Deserialize, Serialize};
use serde_json::{json, Value};
use std::collections::{BTreeMap, BTreeSet};
use std::sync::atomic::{AtomicBool, AtomicU64, Ordering};
use std::sync::{Arc, Mutex};
use std::time::Instant;

#[derive(Clone, Copy, Debug, PartialEq, Eq)]
pub enum Tier {
    Quick,
    Thorough,
}

impl Tier {
    pub fn name(&self) -> &'static str {
        match self {
            Tier::Quick => "quick",
            Tier::Thorough => "thorough",
        }
    }
}

// ------------------------------------------------------------------------------------------
// Faults: every injected fault is drawn here, from its own stream, and logged.

#[derive(Clone, Debug, Serialize, Deserialize, PartialEq)]
pub struct FaultDecision {
    pub stream: String,
    pub idx: u64,
    pub kind: String,
    #[serde(default)]
    pub arg: u64,
}

#[derive(Clone, Debug)]
pub enum FaultMode {
    /// Faults drawn from the seed with a per-run rate multiplier (per mille of the site's base rate).
    Random { seed: u64, rate_pm: u64 },
    /// Only the listed decisions fire (replay / minimisation).
    Scripted(Vec<FaultDecision>),
}

pub struct Faults {
    mode: FaultMode,
    counters: BTreeMap<String, u64>,
    rngs: BTreeMap<String, Rng>,
    pub fired: Vec<FaultDecision>,
    pub disabled: bool,
}

impl Faults {
    /// Stop injecting (used for "after faults stop" liveness phases); opportunities are still numbered.
    pub fn disable(&mut self) {
        self.disabled = true;
    }
    pub fn new(mode: FaultMode) -> Self {
        Faults { mode, counters: BTreeMap::new(), rngs: BTreeMap::new(), fired: Vec::new(), disabled: false }
    }
    /// One fault opportunity on `stream`. `kinds` lists (kind, base per-mille weight, max arg).
    /// Returns the fault to inject, if any, with an argument in `0..=max_arg`.
    pub fn draw(&mut self, stream: &str, kinds: &[(&'static str, u64, u64)]) -> Option<(&'static str, u64)> {
        let idx = {
            let c = self.counters.entry(stream.to_string()).or_insert(0);
            let i = *c;
            *c += 1;
            i
        };
        if self.disabled {
            return None;
        }
        match &self.mode {
            FaultMode::Random { seed, rate_pm } => {
                if *rate_pm == 0 {
                    return None;
                }
                let seed = *seed;
                let rate = *rate_pm;
                let rng = self.rngs.entry(stream.to_string()).or_insert_with(|| Rng::stream(seed, stream));
                // One draw per opportunity regardless of outcome keeps streams aligned.
                let x = rng.below(1_000_000);
                let a = rng.next_u64();
                let mut acc = 0u64;
                for (k, w, max_arg) in kinds {
                    acc += w * rate; // per-mille * per-mille = per-million
                    if x < acc {
                        // at most three slow sends per run, so that a bounded rest at the end of a
                        // scenario is enough for the system to catch up
                        if *k == "send_slow" && self.fired.iter().filter(|f| f.kind == "send_slow").count() >= 3 {
                            return None;
                        }
                        let arg = if *max_arg == 0 { 0 } else { a % (max_arg + 1) };
                        self.fired.push(FaultDecision { stream: stream.to_string(), idx, kind: k.to_string(), arg });
                        return Some((k, arg));
                    }
                }
                None
            }
            FaultMode::Scripted(list) => {
                for d in list {
                    if d.stream == stream && d.idx == idx {
                        for (k, _, max_arg) in kinds {
                            if *k == d.kind {
                                let arg = d.arg.min(*max_arg);
                                self.fired.push(FaultDecision { stream: stream.to_string(), idx, kind: k.to_string(), arg });
                                return Some((k, arg));
                            }
                        }
                    }
                }
                None
            }
        }
    }
}

pub type SharedFaults = Arc<Mutex<Faults>>;

// ------------------------------------------------------------------------------------------

#[derive(Clone, Debug)]
pub struct SchedSpec {
    /// seed handed to random number generators of the code under test (part of the replay)
    pub code_seed: u64,
    pub seed: u64,
    pub strategy: Strategy,
    pub replay: Option<Vec<Preempt>>,
    pub faults: FaultMode,
    pub trace: bool,
    /// chance per million scheduling decisions that a runnable thread is stalled (see dsim)
    pub stall_ppm: u32,
}

#[derive(Clone, Debug, Serialize, Deserialize, PartialEq)]
pub struct Violation {
    pub class: String,
    pub detail: String,
}

pub struct RunReport {
    pub violation: Option<Violation>,
    pub sim: Option<RunResult>,
    pub faults: Vec<FaultDecision>,
    /// Scenario-specific counters merged into the evidence (ops executed, histories checked…).
    pub counters: BTreeMap<String, u64>,
    /// Extra distinctness hash for scenarios whose interesting dimension is not the schedule.
    pub history_hash: u64,
    /// Observations for the determinism self-test (must be identical across re-runs).
    pub observations: String,
}

impl RunReport {
    pub fn ok(sim: RunResult) -> Self {
        RunReport { violation: None, sim: Some(sim), faults: vec![], counters: BTreeMap::new(), history_hash: 0, observations: String::new() }
    }
    pub fn count(&mut self, k: &str, v: u64) {
        *self.counters.entry(k.to_string()).or_insert(0) += v;
    }
}

pub fn violation(class: &str, detail: String) -> Option<Violation> {
    Some(Violation { class: class.to_string(), detail })
}

pub trait Scenario: Sync + Send {
    type Plan: Serialize + DeserializeOwned + Clone + Send + 'static;
    fn property(&self) -> &'static str;
    fn name(&self) -> &'static str;
    /// Draw workload + configuration for run `run` of the batch selected by `seed`.
    fn plan(&self, rng: &mut Rng, tier: Tier) -> Self::Plan;
    fn execute(&self, plan: &Self::Plan, sched: &SchedSpec) -> RunReport;
    /// Smaller candidate plans (each strictly simpler by some measure).
    fn shrink(&self, plan: &Self::Plan) -> Vec<Self::Plan>;
    /// Expected steps per run, for PCT change points.
    fn horizon(&self) -> u64 {
        300
    }
    fn real_components(&self) -> Vec<&'static str>;
    fn stub_components(&self) -> Vec<&'static str>;
    fn assumptions(&self) -> Vec<&'static str> {
        vec![]
    }
    fn rule(&self) -> &'static str {
        "one run = one seeded plan (workload, config, fault rates) under one seeded schedule; distinct = distinct hash of the full (thread, site) step sequence combined with the scenario's history hash; non-trivial = at least one context switch between simulated threads happened inside the concurrent phase"
    }
    /// Fault rates (per mille multiplier) to choose from per run; `[0]` = scenario has no faults.
    fn fault_rates(&self) -> Vec<u64> {
        vec![0]
    }
    /// Does this scenario need one process per run (process-wide state)?
    fn process_per_run(&self) -> bool {
        false
    }
    /// False for scenarios that contain a scheduler the harness does not own (stated in their
    /// assumptions): their verdicts are timing-independent but their traces are not replay-exact.
    fn replay_exact(&self) -> bool {
        true
    }
}

pub trait DynScenario: Sync + Send {
    fn property(&self) -> &'static str;
    fn name(&self) -> &'static str;
    fn plan_json(&self, rng: &mut Rng, tier: Tier) -> Value;
    fn execute_json(&self, plan: &Value, sched: &SchedSpec) -> RunReport;
    fn shrink_json(&self, plan: &Value) -> Vec<Value>;
    fn horizon(&self) -> u64;
    fn real_components(&self) -> Vec<&'static str>;
    fn stub_components(&self) -> Vec<&'static str>;
    fn assumptions(&self) -> Vec<&'static str>;
    fn rule(&self) -> &'static str;
    fn fault_rates(&self) -> Vec<u64>;
    fn process_per_run(&self) -> bool;
    fn replay_exact(&self) -> bool;
}

impl<S: Scenario> DynScenario for S {
    fn property(&self) -> &'static str {
        Scenario::property(self)
    }
    fn name(&self) -> &'static str {
        Scenario::name(self)
    }
    fn plan_json(&self, rng: &mut Rng, tier: Tier) -> Value {
        serde_json::to_value(self.plan(rng, tier)).expect("plan serialises")
    }
    fn execute_json(&self, plan: &Value, sched: &SchedSpec) -> RunReport {
        let p: S::Plan = serde_json::from_value(plan.clone()).expect("plan deserialises");
        self.execute(&p, sched)
    }
    fn shrink_json(&self, plan: &Value) -> Vec<Value> {
        let p: S::Plan = match serde_json::from_value(plan.clone()) {
            Ok(p) => p,
            Err(_) => return vec![],
        };
        self.shrink(&p).into_iter().map(|c| serde_json::to_value(c).unwrap()).collect()
    }
    fn horizon(&self) -> u64 {
        Scenario::horizon(self)
    }
    fn real_components(&self) -> Vec<&'static str> {
        Scenario::real_components(self)
    }
    fn stub_components(&self) -> Vec<&'static str> {
        Scenario::stub_components(self)
    }
    fn assumptions(&self) -> Vec<&'static str> {
        Scenario::assumptions(self)
    }
    fn rule(&self) -> &'static str {
        Scenario::rule(self)
    }
    fn fault_rates(&self) -> Vec<u64> {
        Scenario::fault_rates(self)
    }
    fn process_per_run(&self) -> bool {
        Scenario::process_per_run(self)
    }
    fn replay_exact(&self) -> bool {
        Scenario::replay_exact(self)
    }
}

/// Helper for scenarios: run `body` as simulated thread 0 under `sched`.
pub fn simulate<F>(sched: &SchedSpec, max_steps: u64, body: F) -> RunResult
where
    F: FnOnce() + Send + 'static,
{
    let cfg = Config {
        seed: sched.seed,
        strategy: if sched.replay.is_some() { Strategy::Default } else { sched.strategy.clone() },
        max_steps,
        replay: sched.replay.clone(),
        fairness: 200,
        record_trace: sched.trace,
        code_rng_seed: sched.code_seed,
        stall_ppm: if sched.replay.is_some() { 0 } else { sched.stall_ppm },
    };
    dsim::run(cfg, body)
}

// ------------------------------------------------------------------------------------------
// Replay files

#[derive(Clone, Debug, Serialize, Deserialize)]
pub struct PreemptJ {
    pub tid: u32,
    pub nth: u64,
    pub to: u32,
}

#[derive(Clone, Debug, Serialize, Deserialize)]
pub struct ReplayFile {
    pub property: String,
    pub scenario: String,
    pub verif_seed: u64,
    pub run: u64,
    pub tier: String,
    pub strategy: String,
    pub plan: Value,
    pub faults: Vec<FaultDecision>,
    pub preemptions: Vec<PreemptJ>,
    pub violation: Violation,
    pub engine: String,
    pub repo_head: String,
    pub hooks: String,
    #[serde(default)]
    pub code_seed: u64,
    #[serde(default)]
    pub schedule_hash: String,
    #[serde(default)]
    pub minimised_from: Value,
    /// crash class only: the worker process executed runs first_run, first_run+stride, ..., run
    #[serde(default)]
    pub crash_prefix: Option<(u64, u64)>,
    /// the violation depends on state that earlier runs of the same worker process left behind
    /// (process-global state in the code under test): replay re-executes runs first, first+stride,
    /// ..., run in one process under their seeded strategies
    #[serde(default)]
    pub sequence_prefix: Option<(u64, u64)>,
}

pub fn to_pj(p: &[Preempt]) -> Vec<PreemptJ> {
    p.iter().map(|p| PreemptJ { tid: p.tid, nth: p.nth, to: p.to }).collect()
}
pub fn from_pj(p: &[PreemptJ]) -> Vec<Preempt> {
    p.iter().map(|p| Preempt { tid: p.tid, nth: p.nth, to: p.to }).collect()
}

// ------------------------------------------------------------------------------------------
// Known findings

#[derive(Clone, Debug, Deserialize)]
pub struct KnownFinding {
    pub property: String,
    pub scenario: String,
    pub class: String,
    /// Every listed key must be present in the minimised plan's `signature` object (computed by
    /// the scenario and stored in the violation detail as `sig:<token>`), i.e. structural tokens.
    #[serde(default)]
    pub signature: Vec<String>,
    pub what: String,
}

#[derive(Clone, Debug, Deserialize, Default)]
pub struct KnownFindings {
    #[serde(default)]
    pub findings: Vec<KnownFinding>,
    #[serde(default)]
    pub fixed: Vec<String>,
}

pub fn load_known() -> KnownFindings {
    let p = crate::verif_dir().join("known_findings.json");
    match std::fs::read_to_string(&p) {
        Ok(s) => serde_json::from_str(&s).unwrap_or_else(|e| {
            eprintln!("HARNESS-ERROR: known_findings.json does not parse: {}", e);
            std::process::exit(2)
        }),
        Err(_) => KnownFindings::default(),
    }
}

fn matches_known<'a>(k: &'a KnownFindings, prop: &str, scen: &str, v: &Violation) -> Option<&'a KnownFinding> {
    k.findings.iter().find(|f| {
        f.property == prop
            && f.scenario == scen
            && f.class == v.class
            && f.signature.iter().all(|tok| v.detail.contains(&format!("sig:{}", tok)))
    })
}

// ------------------------------------------------------------------------------------------
// Batch driver

pub struct BatchOpts {
    pub tier: Tier,
    pub seed: u64,
    pub jobs: usize,
    pub max_runs: u64,
    pub budget_s: f64,
}

#[derive(Default, Serialize, Deserialize)]
struct Agg {
    runs: u64,
    steps: u64,
    switches: u64,
    sim_nanos: u64,
    preempted_runs: u64,
    distinct: BTreeSet<u64>,
    #[serde(default)]
    found: Vec<FoundJ>,
    #[serde(default)]
    known_hits: BTreeMap<String, u64>,
    strategies: BTreeMap<String, u64>,
    probes: BTreeMap<String, u64>,
    faults: BTreeMap<String, u64>,
    fault_rate_runs: BTreeMap<String, u64>,
    counters: BTreeMap<String, u64>,
    samples: Vec<Value>,
    harness_errors: Vec<String>,
    max_steps_seen: u64,
    panics_seen: u64,
}

#[derive(Clone, Debug, Serialize, Deserialize)]
pub struct FoundJ {
    pub run: u64,
    pub plan: Value,
    pub preemptions: Vec<PreemptJ>,
    pub faults: Vec<FaultDecision>,
    pub violation: Violation,
    pub strategy: String,
    pub sched_seed: u64,
    #[serde(default)]
    pub code_seed: u64,
}

pub struct FoundViolation {
    pub run: u64,
    pub plan: Value,
    pub sched: SchedSpec,
    pub preemptions: Vec<Preempt>,
    pub faults: Vec<FaultDecision>,
    pub violation: Violation,
}

pub fn sched_for(scn: &dyn DynScenario, seed: u64, run: u64) -> SchedSpec {
    let mut r = Rng::stream(seed ^ dsim::rng::splitmix(run), "sched");
    let strategy = Strategy::draw(&mut r, scn.horizon());
    let rates = scn.fault_rates();
    let rate_pm = *r.pick(&rates);
    SchedSpec {
        code_seed: dsim::rng::splitmix(seed ^ run.wrapping_mul(0x636f6465) ^ 0xc0de),
        seed: r.next_u64(),
        strategy,
        replay: None,
        faults: FaultMode::Random { seed: dsim::rng::splitmix(seed ^ run.wrapping_mul(0x9E37) ^ 0xfa17), rate_pm },
        trace: false,
        // a quarter of the runs inject thread stalls (a runnable thread that is not scheduled for a
        // while, as if the OS had descheduled it), about one per 100..1000 decisions
        stall_ppm: *r.pick(&[0u32, 0, 0, 0, 0, 0, 1_000, 10_000]),
    }
}

pub fn plan_for(scn: &dyn DynScenario, seed: u64, run: u64, tier: Tier) -> Value {
    let mut r = Rng::stream(seed ^ dsim::rng::splitmix(run), "plan");
    scn.plan_json(&mut r, tier)
}

/// Drain crossbeam-epoch garbage so that no deferred destructor of this run executes inside a
/// later run (which would perturb that run's schedule). Called from a non-simulated thread.
pub fn flush_epoch() {
    for _ in 0..64 {
        crossbeam_epoch::pin().flush();
    }
}

fn read_stop(rundir: &std::path::Path) -> u64 {
    let mut m = u64::MAX;
    if let Ok(rd) = std::fs::read_dir(rundir) {
        for e in rd.flatten() {
            let n = e.file_name().to_string_lossy().to_string();
            if n.starts_with("stop.") {
                if let Ok(s) = std::fs::read_to_string(e.path()) {
                    if let Ok(v) = s.trim().parse::<u64>() {
                        m = m.min(v);
                    }
                }
            }
        }
    }
    m
}

pub fn run_wall_limit_s() -> f64 {
    std::env::var("VERIF_RUN_WALL_LIMIT_S").ok().and_then(|s| s.parse().ok()).unwrap_or(30.0)
}

/// Child process: runs indices offset, offset+stride, ... sequentially, one simulation at a time.
pub fn worker_main(scn: &'static dyn DynScenario, opts: &BatchOpts, offset: u64, stride: u64, rundir: &std::path::Path) -> i32 {
    let t0 = Instant::now();
    let known = load_known();
    let mut a = Agg::default();
    // Watchdog: a run that makes no progress for RUN_WALL_LIMIT_S seconds (a busy loop without any
    // sync point, or a real blocking call while holding the baton) is reported as class "hang"
    // and the worker exits; it is never silently waited for.
    let current: Arc<Mutex<Option<(u64, Instant, Value, String, u64, u64)>>> = Arc::new(Mutex::new(None));
    {
        let current = current.clone();
        let rundir = rundir.to_path_buf();
        std::thread::spawn(move || loop {
            std::thread::sleep(std::time::Duration::from_millis(500));
            let c = current.lock().unwrap().clone();
            if let Some((run, since, plan, strategy, sched_seed, code_seed)) = c {
                if since.elapsed().as_secs_f64() > run_wall_limit_s() {
                    // statistics of this worker are lost; the finding is what matters
                    let mut a = Agg::default();
                    a.runs = 1;
                    a.found.push(FoundJ {
                        run,
                        plan,
                        preemptions: vec![],
                        faults: vec![],
                        violation: Violation { class: "hang".into(), detail: format!("run made no progress for {} s of wall-clock time: a thread is busy-waiting without reaching any scheduling point, or blocked for real", run_wall_limit_s()) },
                        strategy,
                        sched_seed,
                        code_seed,
                    });
                    let _ = std::fs::write(rundir.join(format!("stop.{}", offset)), format!("{}", run));
                    let _ = std::fs::write(rundir.join(format!("worker-{}.json", offset)), serde_json::to_vec(&a).unwrap());
                    std::process::exit(0);
                }
            }
        });
    }
    let mut run = offset;
    let mut since_check = 0u32;
    let mut stop_at = u64::MAX;
    // breadcrumb: which run index this process is executing, for the parent to read if the process
    // dies by a signal (memory corruption, abort, stack overflow in the code under test)
    let crumb = std::fs::File::create(rundir.join(format!("cur.{}", offset))).ok();
    while run < opts.max_runs {
        since_check += 1;
        if since_check >= 8 || stop_at != u64::MAX {
            since_check = 0;
            stop_at = read_stop(rundir);
        }
        if run > stop_at {
            break;
        }
        if t0.elapsed().as_secs_f64() > opts.budget_s && stop_at == u64::MAX {
            break;
        }
        let plan = plan_for(scn, opts.seed, run, opts.tier);
        let sched = sched_for(scn, opts.seed, run);
        *current.lock().unwrap() = Some((run, Instant::now(), plan.clone(), sched.strategy.name(), sched.seed, sched.code_seed));
        if let Some(c) = &crumb {
            use std::os::unix::fs::FileExt;
            let _ = c.write_at(format!("{:>20}", run).as_bytes(), 0);
        }
        let rep = scn.execute_json(&plan, &sched);
        // (the watchdog stays armed over the garbage flush: deferred destructors of the code under
        // test run there, and a corrupted structure can make one of them loop forever)
        flush_epoch();
        *current.lock().unwrap() = None;
        a.runs += 1;
        *a.strategies.entry(sched.strategy.name()).or_insert(0) += 1;
        if let FaultMode::Random { rate_pm, .. } = &sched.faults {
            *a.fault_rate_runs.entry(format!("rate_pm={}", rate_pm)).or_insert(0) += 1;
        }
        for f in &rep.faults {
            *a.faults.entry(f.kind.clone()).or_insert(0) += 1;
        }
        for (k, v) in &rep.counters {
            *a.counters.entry(k.clone()).or_insert(0) += v;
        }
        let mut preempts = vec![];
        if let Some(sim) = &rep.sim {
            a.steps += sim.steps;
            a.switches += sim.switches;
            if sim.stalls > 0 {
                *a.faults.entry("thread_stall".to_string()).or_insert(0) += sim.stalls;
            }
            a.sim_nanos += sim.sim_nanos;
            a.max_steps_seen = a.max_steps_seen.max(sim.steps);
            a.panics_seen += sim.panics.len() as u64;
            if sim.switches > 0 {
                a.preempted_runs += 1;
                a.distinct.insert(sim.schedule_hash ^ rep.history_hash.rotate_left(17));
            }
            for (k, v) in &sim.probes {
                *a.probes.entry(k.to_string()).or_insert(0) += v;
            }
            if sim.end != End::Completed && rep.violation.is_none() {
                a.harness_errors.push(format!("run {} ended {:?} after {} steps", run, sim.end, sim.steps));
            }
            if a.samples.len() < 2 && offset < 2 {
                a.samples.push(json!({"run": run, "strategy": sched.strategy.name(), "steps": sim.steps, "switches": sim.switches,
                    "preemptions": sim.preemptions.len(), "threads": sim.threads, "sim_nanos": sim.sim_nanos, "plan": plan.clone(),
                    "faults_fired": rep.faults.len(), "observations": rep.observations.chars().take(600).collect::<String>()}));
            }
            preempts = sim.preemptions.clone();
        } else {
            a.distinct.insert(rep.history_hash);
            if a.samples.len() < 2 && offset < 2 {
                a.samples.push(json!({"run": run, "plan": plan.clone(), "observations": rep.observations.chars().take(600).collect::<String>()}));
            }
        }
        let ignore = std::env::var("VERIF_TRIAGE_IGNORE").unwrap_or_default();
        let rep_violation = match rep.violation {
            Some(v) if !ignore.is_empty() && ignore.split(',').any(|c| c == v.class) => {
                *a.counters.entry(format!("triage_ignored:{}", v.class)).or_insert(0) += 1;
                None
            }
            x => x,
        };
        // A violation whose class and structural signature (computed by the oracle from the
        // history, never from the seed) match a recorded known finding is counted and exploration
        // goes on; anything else stops the batch.
        let rep_violation = match rep_violation {
            Some(v) => match matches_known(&known, scn.property(), scn.name(), &v) {
                Some(k) => {
                    *a.known_hits.entry(k.what.clone()).or_insert(0) += 1;
                    None
                }
                None => Some(v),
            },
            None => None,
        };
        if let Some(v) = rep_violation {
            let _ = std::fs::write(rundir.join(format!("stop.{}", offset)), format!("{}", run));
            a.found.push(FoundJ { run, plan, preemptions: to_pj(&preempts), faults: rep.faults, violation: v, strategy: sched.strategy.name(), sched_seed: sched.seed, code_seed: sched.code_seed });
            break;
        }
        run += stride;
    }
    let out = rundir.join(format!("worker-{}.json", offset));
    std::fs::write(&out, serde_json::to_vec(&a).unwrap()).expect("write worker result");
    0
}

/// Explore (parent): fan seeds out over worker processes, merge, minimise, write evidence.
pub fn run_batch(scn: &'static dyn DynScenario, opts: &BatchOpts) -> i32 {
    let t0 = Instant::now();
    let known = load_known();
    let rundir = crate::verif_dir().join("target").join(format!("run-{}-{}-{}", scn.property(), scn.name(), std::process::id()));
    let _ = std::fs::remove_dir_all(&rundir);
    std::fs::create_dir_all(&rundir).expect("create run dir");
    let exe = std::env::current_exe().expect("current exe");
    let jobs = opts.jobs.max(1) as u64;
    let mut children = vec![];
    for k in 0..jobs {
        let c = std::process::Command::new(&exe)
            .args(["worker", scn.property(), "--scenario", scn.name(), "--tier", opts.tier.name(), "--seed", &opts.seed.to_string(),
                "--runs", &opts.max_runs.to_string(), "--budget-s", &opts.budget_s.to_string(), "--offset", &k.to_string(),
                "--stride", &jobs.to_string(), "--rundir", &rundir.to_string_lossy()])
            .stdout(std::process::Stdio::null())
            .spawn()
            .expect("spawn worker");
        children.push((k, c));
    }
    let mut a = Agg::default();
    let mut crash_prefix: Option<(u64, u64)> = None;
    for (k, mut c) in children {
        let st = c.wait().expect("wait worker");
        let f = rundir.join(format!("worker-{}.json", k));
        match std::fs::read(&f).ok().and_then(|b| serde_json::from_slice::<Agg>(&b).ok()) {
            Some(w) => merge_agg(&mut a, w),
            None => {
                use std::os::unix::process::ExitStatusExt;
                let crumb = std::fs::read_to_string(rundir.join(format!("cur.{}", k))).ok().and_then(|s| s.trim().parse::<u64>().ok());
                match (st.signal(), crumb) {
                    // SIGSEGV / SIGBUS / SIGABRT / SIGILL / SIGFPE while executing a run: the code under
                    // test (the only unsafe code in the process besides the engine) crashed the process
                    (Some(sig), Some(run)) if [4, 6, 7, 8, 11].contains(&sig) => {
                        let sched = sched_for(scn, opts.seed, run);
                        a.runs += 1;
                        a.found.push(FoundJ {
                            run,
                            plan: plan_for(scn, opts.seed, run, opts.tier),
                            preemptions: vec![],
                            faults: vec![],
                            violation: Violation { class: "crash".into(), detail: format!("worker process {} died with signal {} while executing run {} (its runs {}, {}, ... in one process): memory corruption, abort or stack overflow", k, sig, run, k, k + jobs) },
                            strategy: sched.strategy.name(),
                            sched_seed: sched.seed,
                            code_seed: sched.code_seed,
                        });
                        crash_prefix = Some((k, jobs));
                    }
                    _ => a.harness_errors.push(format!("worker {} produced no result (status {:?})", k, st)),
                }
            }
        }
    }
    let _ = std::fs::remove_dir_all(&rundir);
    let explore_s = t0.elapsed().as_secs_f64();
    let mut found = std::mem::take(&mut a.found);
    found.sort_by_key(|f| f.run);

    let mut exit = 0;
    let mut violation_lines = Vec::new();
    let mut known_lines: BTreeSet<String> = BTreeSet::new();
    if !a.harness_errors.is_empty() {
        for e in a.harness_errors.iter().take(5) {
            eprintln!("HARNESS-ERROR: {} {}: {}", scn.property(), scn.name(), e);
        }
        exit = 2;
    }
    for (k, n) in &a.known_hits {
        known_lines.insert(format!("KNOWN-FINDING: property={} {} [hit in {} runs of this batch]", scn.property(), k, n));
    }
    if let Some(fj) = found.into_iter().next() {
        eprintln!("[{}] run {} violates: {} — {}", scn.property(), fj.run, fj.violation.class, fj.violation.detail);
        let f = FoundViolation {
            run: fj.run,
            plan: fj.plan,
            sched: { let mut s = sched_for(scn, opts.seed, fj.run); s.seed = fj.sched_seed; s.code_seed = fj.code_seed; s },
            preemptions: from_pj(&fj.preemptions),
            faults: fj.faults,
            violation: fj.violation,
        };
        // (a worker executes runs k, k+jobs, ...: the prefix of the crashed run follows from its index)
        let crash_prefix = crash_prefix.map(|_| (f.run % jobs, jobs));
        let (file, min_v) = minimise_and_write(scn, opts, f, crash_prefix, jobs);
        match matches_known(&known, scn.property(), scn.name(), &min_v) {
            Some(k) => {
                known_lines.insert(format!("KNOWN-FINDING: property={} {}", scn.property(), k.what));
            }
            None => {
                violation_lines.push(format!("VIOLATION property={} replay={}", scn.property(), file));
                exit = 1;
            }
        }
    }
    for l in &known_lines {
        println!("{}", l);
    }
    for l in &violation_lines {
        println!("{}", l);
    }
    write_evidence(scn, opts, &a, explore_s, t0.elapsed().as_secs_f64(), violation_lines.len(), &known_lines);
    eprintln!(
        "[{}:{}] runs={} steps={} switches={} distinct={} explore={:.1}s exit={}",
        scn.property(), scn.name(), a.runs, a.steps, a.switches, a.distinct.len(), explore_s, exit
    );
    exit
}

fn merge_agg(a: &mut Agg, w: Agg) {
    a.runs += w.runs;
    a.steps += w.steps;
    a.switches += w.switches;
    a.sim_nanos += w.sim_nanos;
    a.preempted_runs += w.preempted_runs;
    a.distinct.extend(w.distinct);
    a.found.extend(w.found);
    for (k, v) in w.known_hits { *a.known_hits.entry(k).or_insert(0) += v; }
    a.max_steps_seen = a.max_steps_seen.max(w.max_steps_seen);
    a.panics_seen += w.panics_seen;
    a.harness_errors.extend(w.harness_errors);
    for (k, v) in w.strategies { *a.strategies.entry(k).or_insert(0) += v; }
    for (k, v) in w.probes { *a.probes.entry(k).or_insert(0) += v; }
    for (k, v) in w.faults { *a.faults.entry(k).or_insert(0) += v; }
    for (k, v) in w.fault_rate_runs { *a.fault_rate_runs.entry(k).or_insert(0) += v; }
    for (k, v) in w.counters { *a.counters.entry(k).or_insert(0) += v; }
    for s in w.samples { if a.samples.len() < 4 { a.samples.push(s); } }
}

fn same_class(a: &Option<Violation>, class: &str) -> bool {
    a.as_ref().map(|v| v.class == class).unwrap_or(false)
}

/// Shrink plan, faults and pre-emptions while the same violation class persists; write the replay
/// file; verify it replays. Returns (path, minimised violation).
fn minimise_and_write(scn: &dyn DynScenario, opts: &BatchOpts, f: FoundViolation, crash_prefix: Option<(u64, u64)>, jobs: u64) -> (String, Violation) {
    let class = f.violation.class.clone();
    let t0 = Instant::now();
    if class == "hang" {
        // re-executing would hang again; the replay command carries its own watchdog
        let original = json!({"note": "not minimised: the run does not terminate"});
        let file = write_replay(scn, opts, &f, &f.plan, &[], &[], &f.violation, &original, None);
        return (file, f.violation.clone());
    }
    if class == "double-drop" {
        // the oracle saw a destructor run twice: the memory behind it is freed twice as well, and
        // re-executing candidates in this (parent) process would abort it before the report
        let original = json!({"note": "not minimised: re-executing a double free in the reporting process would abort it"});
        let file = write_replay(scn, opts, &f, &f.plan, &f.preemptions, &f.faults, &f.violation, &original, None);
        return (file, f.violation.clone());
    }
    if class == "crash" {
        // re-executing in this process would kill it; the replay command re-runs the worker's
        // sequence of runs in a child process
        let original = json!({"note": "not minimised: the run kills the process that executes it"});
        let file = write_replay(scn, opts, &f, &f.plan, &[], &[], &f.violation, &original, crash_prefix);
        return (file, f.violation.clone());
    }
    let mut plan = f.plan.clone();
    let mut pre = f.preemptions.clone();
    let mut faults = f.faults.clone();
    let mut viol = f.violation.clone();
    let original = json!({"plan_bytes": plan.to_string().len(), "preemptions": pre.len(), "faults": faults.len()});
    let budget_s = 120.0;
    let code_seed = f.sched.code_seed;

    // a shrunk candidate must stay the same kind of violation: same class, and listed / not
    // listed in the known-findings file exactly as the original was (otherwise shrinking can
    // drift from a new violation to a known one of the same class, or the other way round)
    let known = load_known();
    let was_known = matches_known(&known, scn.property(), scn.name(), &f.violation).is_some();
    let same_kind = |v: &Option<Violation>| -> bool { same_class(v, &class) && v.as_ref().map(|v| matches_known(&known, scn.property(), scn.name(), v).is_some() == was_known).unwrap_or(false) };
    let attempt = |plan: &Value, pre: &[Preempt], faults: &[FaultDecision]| -> Option<(Violation, Vec<Preempt>, Vec<FaultDecision>)> {
        let sched = SchedSpec { code_seed, seed: 0, strategy: Strategy::Default, replay: Some(pre.to_vec()), faults: FaultMode::Scripted(faults.to_vec()), trace: false, stall_ppm: 0 };
        let rep = scn.execute_json(plan, &sched);
        flush_epoch();
        if same_kind(&rep.violation) {
            let p = rep.sim.as_ref().map(|s| s.preemptions.clone()).unwrap_or_default();
            Some((rep.violation.unwrap(), p, rep.faults))
        } else {
            None
        }
    };

    // Normalise first: the replay of the recorded schedule must reproduce the violation.
    match attempt(&plan, &pre, &faults) {
        Some((v, p, fl)) => {
            viol = v;
            pre = p;
            faults = fl;
        }
        None => {
            // not reproducible in isolation: the run depends on what earlier runs of its worker left
            // in process-global state of the code under test; fall back to replaying the sequence
            eprintln!("[{}] run {} does not reproduce {} in isolation; recording the worker's run sequence instead", scn.property(), f.run, class);
            let original = json!({"note": "not minimised: the violation depends on state left behind by earlier runs in the same process"});
            let file = write_replay_seq(scn, opts, &f, &viol, &original, Some((f.run % jobs, jobs)));
            match replay_file(scn, &file, false) {
                Ok(Some(v)) if v.class == class => {}
                other => eprintln!("HARNESS-ERROR: sequence replay {} does not reproduce ({:?})", file, other.map(|o| o.map(|v| v.class))),
            }
            return (file, viol);
        }
    }

    let mut progress = true;
    while progress && t0.elapsed().as_secs_f64() < budget_s {
        progress = false;
        // (a) plan
        'plan: loop {
            for cand in scn.shrink_json(&plan) {
                if t0.elapsed().as_secs_f64() > budget_s {
                    break 'plan;
                }
                // try with the same deviations first, then with a few fresh random schedules
                if let Some((v, p, fl)) = attempt(&cand, &pre, &faults) {
                    plan = cand;
                    viol = v;
                    pre = p;
                    faults = fl;
                    progress = true;
                    continue 'plan;
                }
                for s in 0..6u64 {
                    let sched = SchedSpec { code_seed, seed: dsim::rng::splitmix(s ^ f.sched.seed), strategy: Strategy::Random, replay: None, faults: FaultMode::Scripted(faults.clone()), trace: false, stall_ppm: f.sched.stall_ppm };
                    let rep = scn.execute_json(&cand, &sched);
                    flush_epoch();
                    if same_kind(&rep.violation) {
                        plan = cand.clone();
                        viol = rep.violation.clone().unwrap();
                        pre = rep.sim.as_ref().map(|s| s.preemptions.clone()).unwrap_or_default();
                        faults = rep.faults.clone();
                        progress = true;
                        continue 'plan;
                    }
                }
            }
            break;
        }
        // (b) faults: drop one at a time
        let mut i = 0;
        while i < faults.len() && t0.elapsed().as_secs_f64() < budget_s {
            let mut cand = faults.clone();
            cand.remove(i);
            if let Some((v, p, fl)) = attempt(&plan, &pre, &cand) {
                viol = v;
                pre = p;
                faults = fl;
                progress = true;
            } else {
                i += 1;
            }
        }
        // (c) pre-emptions: ddmin-style chunk removal
        let mut chunk = (pre.len() / 2).max(1);
        while !pre.is_empty() && t0.elapsed().as_secs_f64() < budget_s {
            let mut i = 0;
            let mut removed_any = false;
            while i < pre.len() {
                let mut cand = pre.clone();
                let end = (i + chunk).min(cand.len());
                cand.drain(i..end);
                if let Some((v, p, fl)) = attempt(&plan, &cand, &faults) {
                    if p.len() < pre.len() {
                        viol = v;
                        pre = p;
                        faults = fl;
                        removed_any = true;
                        progress = true;
                        continue;
                    }
                }
                i += chunk;
            }
            if chunk == 1 && !removed_any {
                break;
            }
            if !removed_any {
                chunk = (chunk / 2).max(1);
            }
        }
    }
    let file = write_replay(scn, opts, &f, &plan, &pre, &faults, &viol, &original, None);
    // Verify: replay twice from the file contents.
    for _ in 0..2 {
        match replay_file(scn, &file, false) {
            Ok(Some(v)) if v.class == class => {}
            other => {
                eprintln!("HARNESS-ERROR: minimised replay {} does not reproduce ({:?})", file, other.map(|o| o.map(|v| v.class)));
            }
        }
    }
    (file, viol)
}

fn repo_head() -> String {
    std::process::Command::new("git")
        .args(["-C", "/repo", "rev-parse", "HEAD"])
        .output()
        .ok()
        .map(|o| String::from_utf8_lossy(&o.stdout).trim().to_string())
        .unwrap_or_default()
}

#[allow(clippy::too_many_arguments)]
fn write_replay(
    scn: &dyn DynScenario,
    opts: &BatchOpts,
    f: &FoundViolation,
    plan: &Value,
    pre: &[Preempt],
    faults: &[FaultDecision],
    viol: &Violation,
    original: &Value,
    crash_prefix: Option<(u64, u64)>,
) -> String {
    let rf = ReplayFile {
        property: scn.property().to_string(),
        scenario: scn.name().to_string(),
        verif_seed: opts.seed,
        run: f.run,
        tier: opts.tier.name().to_string(),
        strategy: f.sched.strategy.name(),
        plan: plan.clone(),
        faults: faults.to_vec(),
        preemptions: to_pj(pre),
        violation: viol.clone(),
        engine: "dsim".into(),
        repo_head: repo_head(),
        hooks: "metrics_verif".into(),
        code_seed: f.sched.code_seed,
        schedule_hash: String::new(),
        minimised_from: original.clone(),
        crash_prefix,
        sequence_prefix: None,
    };
    let dir = crate::verif_dir().join("replays");
    let _ = std::fs::create_dir_all(&dir);
    let path = dir.join(format!("{}-{}-{}-{}.json", scn.property(), scn.name(), opts.seed, f.run));
    std::fs::write(&path, serde_json::to_string_pretty(&rf).unwrap()).expect("write replay");
    path.to_string_lossy().to_string()
}

fn write_replay_seq(scn: &dyn DynScenario, opts: &BatchOpts, f: &FoundViolation, viol: &Violation, original: &Value, seq: Option<(u64, u64)>) -> String {
    let file = write_replay(scn, opts, f, &f.plan, &f.preemptions, &f.faults, viol, original, None);
    let mut rf: ReplayFile = serde_json::from_str(&std::fs::read_to_string(&file).expect("read replay")).expect("parse replay");
    rf.sequence_prefix = seq;
    std::fs::write(&file, serde_json::to_string_pretty(&rf).unwrap()).expect("write replay");
    file
}

/// Re-execute a replay file. Ok(Some(v)) = violated again.
pub fn replay_file(scn: &dyn DynScenario, path: &str, verbose: bool) -> Result<Option<Violation>, String> {
    let s = std::fs::read_to_string(path).map_err(|e| e.to_string())?;
    let rf: ReplayFile = serde_json::from_str(&s).map_err(|e| e.to_string())?;
    if rf.violation.class == "crash" {
        // a recorded crash is replayed in a child process that executes the same sequence of runs
        // (same seeded strategies) as the worker that died
        use std::os::unix::process::ExitStatusExt;
        let (first, stride) = rf.crash_prefix.unwrap_or((rf.run, 1));
        let exe = std::env::current_exe().map_err(|e| e.to_string())?;
        for attempt in 0..3 {
            let st = std::process::Command::new(&exe)
                .args(["crash-child", &rf.property, "--scenario", &rf.scenario, "--tier", &rf.tier, "--seed", &rf.verif_seed.to_string(), "--offset", &first.to_string(), "--stride", &stride.to_string(), "--runs", &(rf.run + 1).to_string()])
                .stdout(std::process::Stdio::null())
                .status()
                .map_err(|e| e.to_string())?;
            if let Some(sig) = st.signal() {
                return Ok(Some(Violation { class: "crash".into(), detail: format!("child process died with signal {} at run {} again (attempt {})", sig, rf.run, attempt + 1) }));
            }
        }
        return Ok(None);
    }
    if let Some((first, stride)) = rf.sequence_prefix {
        let tier = if rf.tier == "thorough" { Tier::Thorough } else { Tier::Quick };
        let mut run = first;
        let mut last = None;
        while run <= rf.run {
            let plan = plan_for(scn, rf.verif_seed, run, tier);
            let sched = sched_for(scn, rf.verif_seed, run);
            let rep = scn.execute_json(&plan, &sched);
            flush_epoch();
            last = rep.violation;
            run += stride.max(1);
        }
        return Ok(last);
    }
    if rf.violation.class == "hang" {
        // a recorded hang is replayed under the seeded strategy it was found with, with a watchdog
        let (prop, file) = (rf.property.clone(), path.to_string());
        std::thread::spawn(move || {
            std::thread::sleep(std::time::Duration::from_secs_f64(run_wall_limit_s()));
            eprintln!("replayed: hang — the run again made no progress for {} s", run_wall_limit_s());
            println!("VIOLATION property={} replay={}", prop, file);
            std::process::exit(1);
        });
        let mut sched = sched_for(scn, rf.verif_seed, rf.run);
        sched.code_seed = rf.code_seed;
        let rep = scn.execute_json(&rf.plan, &sched);
        flush_epoch();
        return Ok(rep.violation);
    }
    let sched = SchedSpec { code_seed: rf.code_seed, seed: 0, strategy: Strategy::Default, replay: Some(from_pj(&rf.preemptions)), faults: FaultMode::Scripted(rf.faults.clone()), trace: verbose, stall_ppm: 0 };
    let rep = scn.execute_json(&rf.plan, &sched);
    flush_epoch();
    if let Some(sim) = &rep.sim {
        if !sim.unused_replay.is_empty() {
            return Err(format!("replay-diverged: {} recorded pre-emptions did not apply", sim.unused_replay.len()));
        }
        if verbose {
            for ev in &sim.trace {
                eprintln!("  step {:>5} t{} {:<28} {}:{}", ev.step, ev.tid, ev.op, ev.file, ev.line);
            }
            for p in &sim.panics {
                eprintln!("  panic in t{} ({}): {}", p.0, p.1, p.2);
            }
        }
    }
    Ok(rep.violation)
}

fn write_evidence(scn: &dyn DynScenario, opts: &BatchOpts, a: &Agg, explore_s: f64, wall_s: f64, violations: usize, known: &BTreeSet<String>) {
    let runs_per_hour = if explore_s > 0.0 { (a.runs as f64 / explore_s * 3600.0) as u64 } else { 0 };
    let zero_probes: Vec<&String> = a.probes.iter().filter(|(_, v)| **v == 0).map(|(k, _)| k).collect();
    let assumptions: Vec<String> = {
        let mut v: Vec<String> = vec![
            "dsim explores sequentially consistent interleavings at instrumented sync points (every atomic/lock operation of the code under test via type-substituting shims); weak-memory reorderings are out of scope of this engine".to_string(),
            "code between two sync points is atomic to the simulator; internals of crossbeam-epoch, hashbrown and std::sync::Arc are single steps".to_string(),
            "sampling, not enumeration: a clean batch is evidence bounded by the reach figures in coverage, not proof".to_string(),
        ];
        v.extend(scn.assumptions().into_iter().map(|s| s.to_string()));
        v
    };
    let ev = json!({
        "property_id": scn.property(),
        "tier": opts.tier.name(),
        "seed": opts.seed,
        "level": "exploration",
        "wall_s": wall_s,
        "violations": violations,
        "coverage": {
            "evaluations": a.runs,
            "distinct_nontrivial": a.distinct.len(),
            "rule": scn.rule(),
            "samples": a.samples,
            "scenario": scn.name(),
            "engine": "dsim (deterministic simulation: real threads, one baton, seeded scheduler, virtual time, seeded fault injection)",
            "runs_with_context_switch": a.preempted_runs,
            "steps_total": a.steps,
            "context_switches_total": a.switches,
            "max_steps_in_a_run": a.max_steps_seen,
            "simulated_seconds_covered": (a.sim_nanos as f64) / 1e9,
            "runs_per_hour": runs_per_hour,
            "seeds_per_hour": runs_per_hour,
            "explore_wall_s": explore_s,
            "jobs": opts.jobs,
            "strategy_mix": a.strategies,
            "fault_rate_mix": a.fault_rate_runs,
            "fault_kinds_fired": a.faults,
            "probes": a.probes,
            "probes_at_zero": zero_probes,
            "scenario_counters": a.counters,
            "panics_caught_in_sim_threads": a.panics_seen,
            "real_components": scn.real_components(),
            "stub_components": scn.stub_components(),
            "known_findings_printed": known.iter().collect::<Vec<_>>(),
            "known_finding_hits": a.known_hits,
            "harness_errors": a.harness_errors.len(),
        },
        "assumptions": assumptions,
    });
    let dir = crate::verif_dir().join("evidence");
    let _ = std::fs::create_dir_all(&dir);
    let path = dir.join(format!("{}.json", scn.property()));
    // Several scenarios may serve one property: merge under "scenarios" when a file from this
    // invocation (same pid marker) already exists.
    let marker = format!("{}", std::process::id());
    let merged = match std::fs::read_to_string(&path).ok().and_then(|s| serde_json::from_str::<Value>(&s).ok()) {
        Some(mut prev) if prev.get("_pid").and_then(|p| p.as_str()) == Some(marker.as_str()) => {
            merge_evidence(&mut prev, &ev);
            prev
        }
        _ => {
            let mut e = ev.clone();
            e["_pid"] = json!(marker);
            e["coverage"]["per_scenario"] = json!({ scn.name(): ev["coverage"].clone() });
            e
        }
    };
    std::fs::write(&path, serde_json::to_string_pretty(&merged).unwrap()).expect("write evidence");
}

fn merge_evidence(prev: &mut Value, ev: &Value) {
    let add = |a: &Value, b: &Value| -> Value { json!(a.as_u64().unwrap_or(0) + b.as_u64().unwrap_or(0)) };
    for k in ["evaluations", "distinct_nontrivial", "runs_with_context_switch", "steps_total", "context_switches_total", "harness_errors"] {
        let v = add(&prev["coverage"][k], &ev["coverage"][k]);
        prev["coverage"][k] = v;
    }
    let s = prev["coverage"]["simulated_seconds_covered"].as_f64().unwrap_or(0.0) + ev["coverage"]["simulated_seconds_covered"].as_f64().unwrap_or(0.0);
    prev["coverage"]["simulated_seconds_covered"] = json!(s);
    let w = prev["wall_s"].as_f64().unwrap_or(0.0) + ev["wall_s"].as_f64().unwrap_or(0.0);
    prev["wall_s"] = json!(w);
    let ex = prev["coverage"]["explore_wall_s"].as_f64().unwrap_or(0.0) + ev["coverage"]["explore_wall_s"].as_f64().unwrap_or(0.0);
    prev["coverage"]["explore_wall_s"] = json!(ex);
    let runs = prev["coverage"]["evaluations"].as_u64().unwrap_or(0);
    if ex > 0.0 {
        prev["coverage"]["runs_per_hour"] = json!((runs as f64 / ex * 3600.0) as u64);
        prev["coverage"]["seeds_per_hour"] = prev["coverage"]["runs_per_hour"].clone();
    }
    let v = add(&prev["violations"], &ev["violations"]);
    prev["violations"] = v;
    for k in ["fault_kinds_fired", "probes", "strategy_mix", "fault_rate_mix", "scenario_counters"] {
        if let Some(m) = ev["coverage"][k].as_object() {
            for (kk, vv) in m {
                let cur = prev["coverage"][k].get(kk).cloned().unwrap_or(json!(0));
                prev["coverage"][k][kk] = add(&cur, vv);
            }
        }
    }
    for k in ["samples", "real_components", "stub_components", "known_findings_printed"] {
        if let Some(arr) = ev["coverage"][k].as_array() {
            for x in arr {
                let pa = prev["coverage"][k].as_array_mut().unwrap();
                if !pa.contains(x) {
                    pa.push(x.clone());
                }
            }
        }
    }
    if let Some(arr) = ev["assumptions"].as_array() {
        for x in arr {
            let pa = prev["assumptions"].as_array_mut().unwrap();
            if !pa.contains(x) {
                pa.push(x.clone());
            }
        }
    }
    let name = ev["coverage"]["scenario"].as_str().unwrap_or("?").to_string();
    prev["coverage"]["per_scenario"][name] = ev["coverage"].clone();
    let r = format!("{} || {}", prev["coverage"]["rule"].as_str().unwrap_or(""), ev["coverage"]["rule"].as_str().unwrap_or(""));
    if prev["coverage"]["rule"] != ev["coverage"]["rule"] {
        prev["coverage"]["rule"] = json!(r);
    }
}

/// Determinism self-test (worker side): each run executed twice in this process, then replayed
/// from its recorded pre-emption list; fingerprints are written out so the parent can compare
/// them across different worker counts (i.e. different process histories).
pub fn selftest_worker(scn: &'static dyn DynScenario, seed: u64, runs: u64, offset: u64, stride: u64, rundir: &std::path::Path) -> i32 {
    let mut fps: BTreeMap<u64, String> = BTreeMap::new();
    let mut bad = 0u64;
    let mut run = offset;
    while run < runs {
        let plan = plan_for(scn, seed, run, Tier::Quick);
        let plan2 = plan_for(scn, seed, run, Tier::Quick);
        if plan != plan2 {
            eprintln!("NONDETERMINISM: plan differs for run {}", run);
            bad += 1;
        }
        let mut sched = sched_for(scn, seed, run);
        sched.trace = true;
        let a = scn.execute_json(&plan, &sched);
        flush_epoch();
        let b = scn.execute_json(&plan, &sched);
        flush_epoch();
        let fa = fingerprint(&a);
        let fb = fingerprint(&b);
        if fa != fb {
            eprintln!("NONDETERMINISM: run {} differs between two executions:\n  A: {}\n  B: {}", run, &fa[..fa.len().min(600)], &fb[..fb.len().min(600)]);
            if let (Some(x), Some(y)) = (&a.sim, &b.sim) {
                for (i, (e, f)) in x.trace.iter().zip(y.trace.iter()).enumerate() {
                    if e.tid != f.tid || e.line != f.line || e.file != f.file || e.op != f.op {
                        eprintln!("  first trace divergence at index {}: A=t{} {} {}:{}  B=t{} {} {}:{}", i, e.tid, e.op, e.file, e.line, f.tid, f.op, f.file, f.line);
                        break;
                    }
                }
            }
            bad += 1;
        } else if let Some(sim) = &a.sim {
            let rs = SchedSpec { code_seed: sched.code_seed, seed: 0, strategy: Strategy::Default, replay: Some(sim.preemptions.clone()), faults: FaultMode::Scripted(a.faults.clone()), trace: false, stall_ppm: 0 };
            let c = scn.execute_json(&plan, &rs);
            flush_epoch();
            let ok = c.sim.as_ref().map(|s| s.schedule_hash == sim.schedule_hash && s.unused_replay.is_empty()).unwrap_or(false) && c.observations == a.observations;
            if !ok {
                eprintln!("NONDETERMINISM: run {} does not replay from its pre-emption list (hash {:x} vs {:x})", run, sim.schedule_hash, c.sim.as_ref().map(|s| s.schedule_hash).unwrap_or(0));
                bad += 1;
            }
        }
        fps.insert(run, format!("{:016x}", crate::util::hash_str(&fa)));
        run += stride;
    }
    let out = rundir.join(format!("fp-{}.json", offset));
    std::fs::write(&out, serde_json::to_vec(&json!({"bad": bad, "fps": fps})).unwrap()).expect("write fp");
    0
}

/// Determinism self-test (parent): two worker counts, fingerprints compared per run.
pub fn selftest_determinism(scn: &'static dyn DynScenario, seed: u64, runs: u64, jobs: usize) -> i32 {
    if !scn.replay_exact() {
        println!("selftest-determinism {} {}: skipped — not replay-exact by design (contains a scheduler the harness does not own; see the scenario's assumptions)", scn.property(), scn.name());
        return 0;
    }
    let exe = std::env::current_exe().expect("current exe");
    let mut all: Vec<BTreeMap<u64, String>> = vec![];
    let mut bad = 0u64;
    for (round, j) in [jobs.max(2) as u64, 3u64].iter().enumerate() {
        let rundir = crate::verif_dir().join("target").join(format!("selftest-{}-{}-{}-{}", scn.property(), scn.name(), std::process::id(), round));
        let _ = std::fs::remove_dir_all(&rundir);
        std::fs::create_dir_all(&rundir).expect("create run dir");
        let mut children = vec![];
        for k in 0..*j {
            children.push(std::process::Command::new(&exe)
                .args(["worker", scn.property(), "--scenario", scn.name(), "--seed", &seed.to_string(), "--runs", &runs.to_string(),
                    "--offset", &k.to_string(), "--stride", &j.to_string(), "--rundir", &rundir.to_string_lossy(), "--selftest"])
                .spawn().expect("spawn"));
        }
        for mut c in children {
            let _ = c.wait();
        }
        let mut m: BTreeMap<u64, String> = BTreeMap::new();
        for k in 0..*j {
            match std::fs::read(rundir.join(format!("fp-{}.json", k))).ok().and_then(|b| serde_json::from_slice::<Value>(&b).ok()) {
                Some(v) => {
                    bad += v["bad"].as_u64().unwrap_or(0);
                    if let Some(o) = v["fps"].as_object() {
                        for (r, f) in o {
                            m.insert(r.parse().unwrap_or(0), f.as_str().unwrap_or("").to_string());
                        }
                    }
                }
                None => {
                    eprintln!("HARNESS-ERROR: selftest worker {} produced nothing", k);
                    bad += 1;
                }
            }
        }
        let _ = std::fs::remove_dir_all(&rundir);
        all.push(m);
    }
    let mut cross = 0u64;
    for (r, f) in &all[0] {
        if all[1].get(r) != Some(f) {
            if cross < 5 {
                eprintln!("NONDETERMINISM: run {} has different fingerprints under {} and 3 worker processes", r, jobs);
            }
            cross += 1;
        }
    }
    println!("selftest-determinism {} {}: runs={} (each x2 in-process + replay from pre-emption list, and across 2 worker counts) divergent_in_process={} divergent_across_worker_counts={}", scn.property(), scn.name(), runs, bad, cross);
    if bad == 0 && cross == 0 { 0 } else { 2 }
}

fn fingerprint(r: &RunReport) -> String {
    let mut s = String::new();
    if let Some(sim) = &r.sim {
        s.push_str(&format!("end={:?} steps={} sw={} hash={:x} nanos={} panics={:?} probes={:?} ", sim.end, sim.steps, sim.switches, sim.schedule_hash, sim.sim_nanos, sim.panics, sim.probes));
    }
    s.push_str(&format!("viol={:?} faults={:?} hh={:x} obs={}", r.violation, r.faults, r.history_hash, r.observations));
    s
}

/// Child of a crash replay: executes runs offset, offset+stride, ..., < max_runs like a worker.
pub fn crash_child(scn: &'static dyn DynScenario, seed: u64, tier: Tier, offset: u64, stride: u64, max_runs: u64) -> i32 {
    let mut run = offset;
    while run < max_runs {
        let plan = plan_for(scn, seed, run, tier);
        let sched = sched_for(scn, seed, run);
        let rep = scn.execute_json(&plan, &sched);
        flush_epoch();
        if std::env::var("VERIF_DEBUG_SEQ").is_ok() {
            eprintln!("run {} plan {} obs {}", run, plan, rep.observations.chars().take(4000).collect::<String>());
        }
        if rep.violation.is_some() {
            eprintln!("run {}: {:?}", run, rep.violation.map(|v| v.class));
        }
        run += stride.max(1);
    }
    0
}
