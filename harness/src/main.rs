//! vh — verification harness for metrics-rs/metrics: deterministic simulation with fault injection.

mod doubles;
mod framework;
mod hooks;
mod oracles;
mod scenarios;
mod simnet;
mod util;

use framework::*;
use std::path::PathBuf;

pub fn verif_dir() -> PathBuf {
    std::env::var("VERIF_DIR").map(PathBuf::from).unwrap_or_else(|_| PathBuf::from("/verif"))
}

/// (scenario, share of the batch in per-mille of the tier's base run count, wall share)
pub struct Entry {
    pub scn: &'static dyn DynScenario,
    pub quick_runs: u64,
    pub thorough_runs: u64,
}

fn registry() -> Vec<Entry> {
    scenarios::all()
}

fn usage() -> ! {
    eprintln!("usage: vh run <Cxx> [--tier quick|thorough] [--seed N] [--jobs J] [--budget-s S] [--runs N] [--scenario name]\n       vh replay <file> [-v]\n       vh selftest-determinism <Cxx> [--runs N] [--seed N] [--jobs J]\n       vh list");
    std::process::exit(2)
}

fn main() {
    hooks::install();
    let args: Vec<String> = std::env::args().collect();
    if args.len() < 2 {
        usage();
    }
    let mut tier = match std::env::var("VERIF_TIER").ok().as_deref() {
        Some("thorough") => Tier::Thorough,
        _ => Tier::Quick,
    };
    let mut seed: u64 = std::env::var("VERIF_SEED").ok().and_then(|s| s.parse().ok()).unwrap_or(1);
    let mut jobs: usize = std::env::var("VERIF_JOBS").ok().and_then(|s| s.parse().ok()).unwrap_or_else(|| {
        std::thread::available_parallelism().map(|n| n.get()).unwrap_or(8)
    });
    let mut budget: Option<f64> = std::env::var("VERIF_BUDGET_S").ok().and_then(|s| s.parse().ok());
    let mut runs: Option<u64> = None;
    let mut only: Option<String> = None;
    let mut verbose = false;
    let mut offset: u64 = 0;
    let mut stride: u64 = 1;
    let mut rundir: Option<String> = None;
    let mut selftest = false;
    let mut pos: Vec<String> = vec![];
    let mut i = 2;
    while i < args.len() {
        let a = &args[i];
        let mut val = || {
            i += 1;
            args.get(i).cloned().unwrap_or_else(|| usage())
        };
        match a.as_str() {
            "--tier" => {
                tier = match val().as_str() {
                    "quick" => Tier::Quick,
                    "thorough" => Tier::Thorough,
                    _ => usage(),
                }
            }
            "--seed" => seed = val().parse().unwrap_or_else(|_| usage()),
            "--jobs" => jobs = val().parse().unwrap_or_else(|_| usage()),
            "--budget-s" => budget = Some(val().parse().unwrap_or_else(|_| usage())),
            "--runs" => runs = Some(val().parse().unwrap_or_else(|_| usage())),
            "--scenario" => only = Some(val()),
            "-v" => verbose = true,
            "--offset" => offset = val().parse().unwrap_or_else(|_| usage()),
            "--stride" => stride = val().parse().unwrap_or_else(|_| usage()),
            "--rundir" => rundir = Some(val()),
            "--selftest" => selftest = true,
            _ => pos.push(a.clone()),
        }
        i += 1;
    }
    let reg = registry();
    match args[1].as_str() {
        "list" => {
            for e in &reg {
                println!("{} {} quick={} thorough={}", e.scn.property(), e.scn.name(), e.quick_runs, e.thorough_runs);
            }
        }
        "run" => {
            let prop = pos.first().cloned().unwrap_or_else(|| usage());
            let entries: Vec<&Entry> = reg.iter().filter(|e| e.scn.property() == prop && only.as_ref().map(|o| o == e.scn.name()).unwrap_or(true)).collect();
            if entries.is_empty() {
                eprintln!("HARNESS-ERROR: no scenario for {}", prop);
                std::process::exit(2);
            }
            // remove stale evidence so this invocation rewrites it
            let _ = std::fs::remove_file(verif_dir().join("evidence").join(format!("{}.json", prop)));
            let total_budget = budget.unwrap_or(match tier {
                Tier::Quick => 60.0,
                Tier::Thorough => 600.0,
            });
            let mut exit = 0;
            let n = entries.len() as f64;
            for e in entries {
                let opts = BatchOpts {
                    tier,
                    seed,
                    jobs,
                    max_runs: runs.unwrap_or(match tier {
                        Tier::Quick => e.quick_runs,
                        Tier::Thorough => e.thorough_runs,
                    }),
                    budget_s: total_budget / n,
                };
                let code = run_batch(e.scn, &opts);
                if code == 1 {
                    exit = 1;
                } else if code == 2 && exit == 0 {
                    exit = 2;
                }
            }
            // strip the merge marker
            let p = verif_dir().join("evidence").join(format!("{}.json", prop));
            if let Some(mut v) = std::fs::read_to_string(&p).ok().and_then(|s| serde_json::from_str::<serde_json::Value>(&s).ok()) {
                if let Some(o) = v.as_object_mut() {
                    o.remove("_pid");
                }
                let _ = std::fs::write(&p, serde_json::to_string_pretty(&v).unwrap());
            }
            std::process::exit(exit);
        }
        "worker" => {
            let prop = pos.first().cloned().unwrap_or_else(|| usage());
            let name = only.clone().unwrap_or_else(|| usage());
            let e = reg.iter().find(|e| e.scn.property() == prop && e.scn.name() == name).unwrap_or_else(|| usage());
            let rd = PathBuf::from(rundir.unwrap_or_else(|| usage()));
            let code = if selftest {
                selftest_worker(e.scn, seed, runs.unwrap_or(2000), offset, stride, &rd)
            } else {
                let opts = BatchOpts { tier, seed, jobs: 1, max_runs: runs.unwrap_or(1), budget_s: budget.unwrap_or(60.0) };
                worker_main(e.scn, &opts, offset, stride, &rd)
            };
            std::process::exit(code);
        }
        "crash-child" => {
            let prop = pos.first().cloned().unwrap_or_else(|| usage());
            let name = only.clone().unwrap_or_else(|| usage());
            let e = reg.iter().find(|e| e.scn.property() == prop && e.scn.name() == name).unwrap_or_else(|| usage());
            std::process::exit(crash_child(e.scn, seed, tier, offset, stride, runs.unwrap_or(1)));
        }
        "one" => {
            // vh one <Cxx> --scenario name --offset <run> [-v]: execute one run index, print outcome
            let prop = pos.first().cloned().unwrap_or_else(|| usage());
            let e = reg.iter().find(|e| e.scn.property() == prop && only.as_ref().map(|o| o == e.scn.name()).unwrap_or(true)).unwrap_or_else(|| usage());
            let plan = plan_for(e.scn, seed, offset, tier);
            let mut sched = sched_for(e.scn, seed, offset);
            sched.trace = true;
            eprintln!("plan: {}", plan);
            eprintln!("strategy: {}", sched.strategy.name());
            let rep = e.scn.execute_json(&plan, &sched);
            if let Some(sim) = &rep.sim {
                let n = sim.trace.len();
                let from = if verbose { 0 } else { n.saturating_sub(60) };
                for ev in &sim.trace[from..] {
                    eprintln!("  step {:>5} t{} {:<28} {}:{}", ev.step, ev.tid, ev.op, ev.file, ev.line);
                }
                eprintln!("end={:?} steps={} switches={} panics={:?}", sim.end, sim.steps, sim.switches, sim.panics);
            }
            eprintln!("violation: {:?}", rep.violation);
            eprintln!("faults: {:?}", rep.faults);
            eprintln!("obs: {}", rep.observations.chars().take(60000).collect::<String>());
        }
        "debug-seq" => {
            let prop = pos.first().cloned().unwrap_or_else(|| usage());
            let e = reg.iter().find(|e| e.scn.property() == prop && only.as_ref().map(|o| o == e.scn.name()).unwrap_or(true)).unwrap_or_else(|| usage());
            let mut run = offset;
            let mut prev_plan = String::new();
            while run < runs.unwrap_or(1000) {
                let plan = plan_for(e.scn, seed, run, tier);
                let mut sched = sched_for(e.scn, seed, run);
                sched.trace = true;
                let a = e.scn.execute_json(&plan, &sched);
                flush_epoch();
                let b = e.scn.execute_json(&plan, &sched);
                flush_epoch();
                let (x, y) = (a.sim.unwrap(), b.sim.unwrap());
                if x.schedule_hash != y.schedule_hash {
                    eprintln!("run {} diverges; plan {} ; previous plan {}", run, plan, prev_plan);
                    for (i, (p, q)) in x.trace.iter().zip(y.trace.iter()).enumerate() {
                        if p.line != q.line || p.tid != q.tid {
                            eprintln!("  idx {} A=t{} {} {}:{} B=t{} {} {}:{}", i, p.tid, p.op, p.file, p.line, q.tid, q.op, q.file, q.line);
                            break;
                        }
                    }
                }
                prev_plan = plan.to_string();
                run += stride;
            }
        }
        "debug-twice" => {
            let prop = pos.first().cloned().unwrap_or_else(|| usage());
            let e = reg.iter().find(|e| e.scn.property() == prop && only.as_ref().map(|o| o == e.scn.name()).unwrap_or(true)).unwrap_or_else(|| usage());
            let plan = plan_for(e.scn, seed, offset, tier);
            let mut sched = sched_for(e.scn, seed, offset);
            sched.trace = true;
            eprintln!("plan: {}", plan);
            for round in 0..3 {
                let rep = e.scn.execute_json(&plan, &sched);
                flush_epoch();
                if let Some(sim) = &rep.sim {
                    eprintln!("round {} steps={} hash={:x}", round, sim.steps, sim.schedule_hash);
                    for ev in sim.trace.iter().take(12) {
                        eprintln!("  step {:>5} t{} {:<28} {}:{}", ev.step, ev.tid, ev.op, ev.file, ev.line);
                    }
                }
            }
        }
        "replay" => {
            let file = pos.first().cloned().unwrap_or_else(|| usage());
            let s = std::fs::read_to_string(&file).unwrap_or_else(|e| {
                eprintln!("HARNESS-ERROR: cannot read {}: {}", file, e);
                std::process::exit(2)
            });
            let rf: ReplayFile = serde_json::from_str(&s).unwrap_or_else(|e| {
                eprintln!("HARNESS-ERROR: cannot parse {}: {}", file, e);
                std::process::exit(2)
            });
            let e = reg.iter().find(|e| e.scn.property() == rf.property && e.scn.name() == rf.scenario).unwrap_or_else(|| {
                eprintln!("HARNESS-ERROR: unknown scenario {} {}", rf.property, rf.scenario);
                std::process::exit(2)
            });
            match replay_file(e.scn, &file, verbose) {
                Ok(Some(v)) => {
                    eprintln!("replayed: {} — {}", v.class, v.detail);
                    if v.class == rf.violation.class {
                        println!("VIOLATION property={} replay={}", rf.property, file);
                        std::process::exit(1);
                    } else {
                        eprintln!("HARNESS-ERROR: replay produced a different violation class ({} recorded)", rf.violation.class);
                        std::process::exit(2);
                    }
                }
                Ok(None) => {
                    println!("replay of {} no longer violates {} (recorded: {})", file, rf.property, rf.violation.class);
                    std::process::exit(0);
                }
                Err(e) => {
                    eprintln!("HARNESS-ERROR: {}", e);
                    std::process::exit(2);
                }
            }
        }
        "selftest-determinism" => {
            let prop = pos.first().cloned().unwrap_or_else(|| usage());
            let mut code = 0;
            for e in reg.iter().filter(|e| (prop == "all" || e.scn.property() == prop) && only.as_ref().map(|o| o == e.scn.name()).unwrap_or(true)) {
                let c = selftest_determinism(e.scn, seed, runs.unwrap_or(2000), jobs);
                if c != 0 {
                    code = c;
                }
            }
            std::process::exit(code);
        }
        _ => usage(),
    }
}
