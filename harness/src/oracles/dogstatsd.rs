//! Independent DogStatsD datagram parser (`name:v1:v2|t|@rate|#k:v,k2|Tts\n`) and the
//! length-prefixed stream deframer used on unix stream sockets.

#[derive(Clone, Debug, PartialEq)]
pub struct Msg {
    pub name: String,
    pub values: Vec<String>,
    pub typ: char,
    pub rate: Option<String>,
    pub tags: Vec<(String, Option<String>)>,
    pub timestamp: Option<String>,
}

/// Parse exactly one message (must end with exactly one newline, contain no other newline).
pub fn parse(payload: &[u8]) -> Result<Msg, String> {
    let s = std::str::from_utf8(payload).map_err(|e| format!("not utf-8: {}", e))?;
    let body = s.strip_suffix('\n').ok_or("payload does not end with a newline")?;
    if body.contains('\n') {
        return Err("payload contains more than one message".into());
    }
    let mut parts = body.split('|');
    let head = parts.next().ok_or("empty payload")?;
    let (name, vals) = head.split_once(':').ok_or_else(|| format!("no ':' between name and value in {:?}", head))?;
    if vals.is_empty() {
        return Err("no value".into());
    }
    let values: Vec<String> = vals.split(':').map(|v| v.to_string()).collect();
    if values.iter().any(|v| v.is_empty()) {
        return Err("empty value".into());
    }
    let typ = parts.next().ok_or("missing type")?;
    let typ = match typ {
        "c" | "g" | "h" | "d" | "ms" | "s" => typ.chars().next().unwrap(),
        other => return Err(format!("bad type {:?}", other)),
    };
    let mut rate = None;
    let mut tags = vec![];
    let mut timestamp = None;
    let mut stage = 0;
    for p in parts {
        if let Some(r) = p.strip_prefix('@') {
            if stage > 0 {
                return Err("sample rate out of order or repeated".into());
            }
            stage = 1;
            rate = Some(r.to_string());
        } else if let Some(t) = p.strip_prefix('#') {
            if stage > 1 {
                return Err("tags out of order or repeated".into());
            }
            stage = 2;
            for tag in t.split(',') {
                if tag.is_empty() {
                    return Err("empty tag".into());
                }
                match tag.split_once(':') {
                    Some((k, v)) => tags.push((k.to_string(), Some(v.to_string()))),
                    None => tags.push((tag.to_string(), None)),
                }
            }
        } else if let Some(t) = p.strip_prefix('T') {
            if stage > 2 {
                return Err("timestamp repeated".into());
            }
            stage = 3;
            if t.parse::<u64>().is_err() {
                return Err(format!("bad timestamp {:?}", t));
            }
            timestamp = Some(t.to_string());
        } else {
            return Err(format!("unknown section {:?}", p));
        }
    }
    Ok(Msg { name: name.to_string(), values, typ, rate, tags, timestamp })
}

/// Split a length-prefixed byte stream into frames. Returns (frames, trailing bytes that do not
/// form a whole frame).
pub fn deframe(stream: &[u8]) -> (Vec<Vec<u8>>, Vec<u8>) {
    let mut out = vec![];
    let mut i = 0;
    while i + 4 <= stream.len() {
        let n = u32::from_le_bytes([stream[i], stream[i + 1], stream[i + 2], stream[i + 3]]) as usize;
        if i + 4 + n > stream.len() {
            break;
        }
        out.push(stream[i + 4..i + 4 + n].to_vec());
        i += 4 + n;
    }
    (out, stream[i..].to_vec())
}
