pub mod wgl;
pub mod promtext;
