pub mod wgl;
