pub mod wgl;
pub mod promtext;
pub mod dogstatsd;
pub mod protoevent;
