//! Strict parser for the Prometheus text exposition format, written from the format
//! specification (HELP / TYPE / sample / blank lines, label escaping, name grammar).
//! Independent of the exporter's formatting code.

#[derive(Clone, Debug, PartialEq)]
pub struct Sample {
    pub name: String,
    pub labels: Vec<(String, String)>,
    pub value: String,
}

#[derive(Clone, Debug, Default)]
pub struct Family {
    pub name: String,
    pub help: Option<String>,
    pub typ: Option<String>,
    pub samples: Vec<Sample>,
}

fn name_ok(s: &str, colon: bool) -> bool {
    let mut it = s.chars();
    match it.next() {
        Some(c) if c.is_ascii_alphabetic() || c == '_' || (colon && c == ':') => {}
        _ => return false,
    }
    it.all(|c| c.is_ascii_alphanumeric() || c == '_' || (colon && c == ':'))
}

fn value_ok(v: &str) -> bool {
    matches!(v, "NaN" | "+Inf" | "-Inf" | "Inf" | "inf" | "-inf" | "+inf") || v.parse::<f64>().is_ok()
}

/// Parse one sample line: `name[{k="v",...}] value`.
fn parse_sample(line: &str) -> Result<Sample, String> {
    let bytes: Vec<char> = line.chars().collect();
    let mut i = 0;
    while i < bytes.len() && bytes[i] != '{' && bytes[i] != ' ' {
        i += 1;
    }
    let name: String = bytes[..i].iter().collect();
    if !name_ok(&name, true) {
        return Err(format!("bad metric name {:?}", name));
    }
    let mut labels = vec![];
    if i < bytes.len() && bytes[i] == '{' {
        i += 1;
        loop {
            if i >= bytes.len() {
                return Err("unterminated label set".into());
            }
            if bytes[i] == '}' {
                i += 1;
                break;
            }
            let st = i;
            while i < bytes.len() && bytes[i] != '=' {
                i += 1;
            }
            let k: String = bytes[st..i.min(bytes.len())].iter().collect();
            if !name_ok(&k, false) {
                return Err(format!("bad label name {:?}", k));
            }
            if i + 1 >= bytes.len() || bytes[i + 1] != '"' {
                return Err("label value must be quoted".into());
            }
            i += 2;
            let mut v = String::new();
            loop {
                if i >= bytes.len() {
                    return Err("unterminated label value".into());
                }
                match bytes[i] {
                    '\\' => {
                        if i + 1 >= bytes.len() {
                            return Err("dangling backslash".into());
                        }
                        match bytes[i + 1] {
                            '\\' => v.push('\\'),
                            '"' => v.push('"'),
                            'n' => v.push('\n'),
                            c => return Err(format!("bad escape \\{}", c)),
                        }
                        i += 2;
                    }
                    '"' => {
                        i += 1;
                        break;
                    }
                    c => {
                        v.push(c);
                        i += 1;
                    }
                }
            }
            labels.push((k, v));
            if i < bytes.len() && bytes[i] == ',' {
                i += 1;
            } else if i < bytes.len() && bytes[i] == '}' {
                i += 1;
                break;
            } else {
                return Err("expected ',' or '}' after label".into());
            }
        }
    }
    if i >= bytes.len() || bytes[i] != ' ' {
        return Err("expected space before value".into());
    }
    let rest: String = bytes[i + 1..].iter().collect();
    let mut parts = rest.split(' ');
    let value = parts.next().unwrap_or("").to_string();
    if !value_ok(&value) {
        return Err(format!("bad sample value {:?}", value));
    }
    if let Some(ts) = parts.next() {
        if ts.parse::<i64>().is_err() {
            return Err(format!("bad timestamp {:?}", ts));
        }
    }
    if parts.next().is_some() {
        return Err("trailing garbage after value".into());
    }
    // duplicate label names are illegal
    for a in 0..labels.len() {
        for b in (a + 1)..labels.len() {
            if labels[a].0 == labels[b].0 {
                return Err(format!("label name {:?} repeated", labels[a].0));
            }
        }
    }
    Ok(Sample { name, labels, value })
}

/// Allowed sample names for a family of a given type, leniently accepting a unit suffix after
/// the type suffix (where the exporter puts it; that placement is property C08's business).
pub fn sample_belongs(family: &str, typ: &str, sample: &str) -> bool {
    let suffixes: &[&str] = match typ {
        "histogram" => &["_bucket", "_sum", "_count"],
        "summary" => &["", "_sum", "_count"],
        _ => &[""],
    };
    for s in suffixes {
        let base = format!("{}{}", family, s);
        if sample == base {
            return true;
        }
        if let Some(rest) = sample.strip_prefix(&base) {
            // unit suffix: _[a-z_]+
            if rest.starts_with('_') && rest.len() > 1 && rest[1..].chars().all(|c| c.is_ascii_lowercase() || c == '_') {
                return true;
            }
        }
    }
    false
}

pub fn parse(text: &str) -> Result<Vec<Family>, String> {
    let mut fams: Vec<Family> = vec![];
    let mut cur: Option<usize> = None;
    if !text.is_empty() && !text.ends_with('\n') {
        return Err("output does not end with a newline".into());
    }
    for (ln, line) in text.split('\n').enumerate() {
        if line.is_empty() {
            continue;
        }
        if let Some(rest) = line.strip_prefix("# HELP ") {
            let (name, help) = match rest.find(' ') {
                Some(p) => (&rest[..p], &rest[p + 1..]),
                None => (rest, ""),
            };
            if !name_ok(name, true) {
                return Err(format!("line {}: bad name in HELP {:?}", ln + 1, name));
            }
            if fams.iter().any(|f| f.name == name) {
                return Err(format!("line {}: second HELP/TYPE block for family {}", ln + 1, name));
            }
            fams.push(Family { name: name.to_string(), help: Some(help.to_string()), typ: None, samples: vec![] });
            cur = Some(fams.len() - 1);
        } else if let Some(rest) = line.strip_prefix("# TYPE ") {
            let mut it = rest.splitn(2, ' ');
            let name = it.next().unwrap_or("");
            let typ = it.next().unwrap_or("");
            if !name_ok(name, true) {
                return Err(format!("line {}: bad name in TYPE {:?}", ln + 1, name));
            }
            if !matches!(typ, "counter" | "gauge" | "histogram" | "summary" | "untyped") {
                return Err(format!("line {}: bad type {:?}", ln + 1, typ));
            }
            match cur {
                Some(i) if fams[i].name == name && fams[i].typ.is_none() && fams[i].samples.is_empty() => fams[i].typ = Some(typ.to_string()),
                _ => {
                    if fams.iter().any(|f| f.name == name) {
                        return Err(format!("line {}: second TYPE line for family {}", ln + 1, name));
                    }
                    fams.push(Family { name: name.to_string(), help: None, typ: Some(typ.to_string()), samples: vec![] });
                    cur = Some(fams.len() - 1);
                }
            }
        } else if line.starts_with('#') {
            return Err(format!("line {}: comment line that is neither HELP nor TYPE: {:?}", ln + 1, line));
        } else {
            let s = parse_sample(line).map_err(|e| format!("line {}: {} in {:?}", ln + 1, e, line))?;
            match cur {
                Some(i) => {
                    let typ = fams[i].typ.clone().ok_or_else(|| format!("line {}: sample before TYPE of {}", ln + 1, fams[i].name))?;
                    if !sample_belongs(&fams[i].name, &typ, &s.name) {
                        return Err(format!("line {}: sample {} does not belong to family {} ({})", ln + 1, s.name, fams[i].name, typ));
                    }
                    fams[i].samples.push(s);
                }
                None => return Err(format!("line {}: sample without a TYPE line", ln + 1)),
            }
        }
    }
    Ok(fams)
}
