//! Wing–Gong–Lowe style linearizability check against a small sequential model.
//! Calls carry their invoke/return stamps (dsim's global step counter). The model's `step`
//! validates the *observed* result of an operation and applies its effect.

use std::collections::HashSet;
use std::hash::Hash;

pub trait Model: Clone + Eq + Hash {
    type Op;
    /// Apply `op` (which includes the result the implementation returned); false = this result is
    /// impossible in the current state.
    fn step(&mut self, op: &Self::Op) -> bool;
}

pub struct Call<O> {
    pub inv: u64,
    pub ret: u64,
    pub op: O,
}

pub enum Outcome {
    Linearizable,
    NotLinearizable,
    BudgetExceeded,
}

pub fn check<M: Model>(init: M, calls: &[Call<M::Op>], budget: u64) -> Outcome {
    assert!(calls.len() <= 63, "history too long for the checker");
    let mut seen: HashSet<(u64, M)> = HashSet::new();
    let mut nodes = 0u64;
    let full: u64 = if calls.is_empty() { 0 } else { (1u64 << calls.len()) - 1 };
    fn rec<M: Model>(done: u64, full: u64, m: &M, calls: &[Call<M::Op>], seen: &mut HashSet<(u64, M)>, nodes: &mut u64, budget: u64) -> Option<bool> {
        if done == full {
            return Some(true);
        }
        *nodes += 1;
        if *nodes > budget {
            return None;
        }
        if !seen.insert((done, m.clone())) {
            return Some(false);
        }
        // earliest return among pending calls: a call may go first only if it was invoked before that
        let mut min_ret = u64::MAX;
        for (i, c) in calls.iter().enumerate() {
            if done & (1 << i) == 0 {
                min_ret = min_ret.min(c.ret);
            }
        }
        for (i, c) in calls.iter().enumerate() {
            if done & (1 << i) != 0 || c.inv > min_ret {
                continue;
            }
            let mut m2 = m.clone();
            if m2.step(&c.op) {
                match rec(done | (1 << i), full, &m2, calls, seen, nodes, budget) {
                    Some(true) => return Some(true),
                    None => return None,
                    Some(false) => {}
                }
            }
        }
        Some(false)
    }
    match rec(0, full, &init, calls, &mut seen, &mut nodes, budget) {
        Some(true) => Outcome::Linearizable,
        Some(false) => Outcome::NotLinearizable,
        None => Outcome::BudgetExceeded,
    }
}
