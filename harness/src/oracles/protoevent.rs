//! Hand-written decoder for the TCP exporter's wire format: a stream of varint-length-delimited
//! `event.proto` `Event` messages. Independent of prost.

use std::collections::BTreeMap;

#[derive(Clone, Debug, PartialEq)]
pub enum Ev {
    Metadata { name: String, typ: u64, unit: Option<String>, desc: Option<String> },
    Metric { name: String, labels: BTreeMap<String, String>, op: u32, bits: u64, has_ts: bool },
}

fn varint(b: &[u8], i: &mut usize) -> Option<u64> {
    let mut v = 0u64;
    let mut shift = 0;
    loop {
        let x = *b.get(*i)?;
        *i += 1;
        v |= ((x & 0x7f) as u64) << shift;
        if x & 0x80 == 0 {
            return Some(v);
        }
        shift += 7;
        if shift > 63 {
            return None;
        }
    }
}

struct Field<'a> {
    no: u32,
    wire: u8,
    val: u64,
    bytes: &'a [u8],
}

fn fields(b: &[u8]) -> Result<Vec<Field<'_>>, String> {
    let mut out = vec![];
    let mut i = 0;
    while i < b.len() {
        let tag = varint(b, &mut i).ok_or("bad tag varint")?;
        let no = (tag >> 3) as u32;
        let wire = (tag & 7) as u8;
        if no == 0 {
            return Err("field number 0".into());
        }
        match wire {
            0 => {
                let v = varint(b, &mut i).ok_or("bad varint")?;
                out.push(Field { no, wire, val: v, bytes: &[] });
            }
            1 => {
                if i + 8 > b.len() {
                    return Err("truncated fixed64".into());
                }
                let mut a = [0u8; 8];
                a.copy_from_slice(&b[i..i + 8]);
                i += 8;
                out.push(Field { no, wire, val: u64::from_le_bytes(a), bytes: &[] });
            }
            2 => {
                let n = varint(b, &mut i).ok_or("bad length")? as usize;
                if i + n > b.len() {
                    return Err("truncated length-delimited field".into());
                }
                out.push(Field { no, wire, val: 0, bytes: &b[i..i + n] });
                i += n;
            }
            w => return Err(format!("unsupported wire type {}", w)),
        }
    }
    Ok(out)
}

fn string(b: &[u8]) -> Result<String, String> {
    String::from_utf8(b.to_vec()).map_err(|_| "invalid utf-8 in string field".to_string())
}

pub fn decode_event(b: &[u8]) -> Result<Ev, String> {
    let fs = fields(b)?;
    if fs.len() != 1 || fs[0].wire != 2 {
        return Err(format!("Event must hold exactly one oneof member, found {} fields", fs.len()));
    }
    let inner = fields(fs[0].bytes)?;
    match fs[0].no {
        1 => {
            let (mut name, mut typ, mut unit, mut desc) = (String::new(), 0u64, None, None);
            for f in inner {
                match (f.no, f.wire) {
                    (1, 2) => name = string(f.bytes)?,
                    (2, 0) => typ = f.val,
                    (3, 2) => unit = Some(string(f.bytes)?),
                    (4, 2) => desc = Some(string(f.bytes)?),
                    (n, w) => return Err(format!("unexpected Metadata field {} wire {}", n, w)),
                }
            }
            if typ > 2 {
                return Err(format!("bad metric type {}", typ));
            }
            Ok(Ev::Metadata { name, typ, unit, desc })
        }
        2 => {
            let mut name = String::new();
            let mut labels = BTreeMap::new();
            let mut op: Option<(u32, u64)> = None;
            let mut has_ts = false;
            for f in inner {
                match (f.no, f.wire) {
                    (1, 2) => name = string(f.bytes)?,
                    (2, 2) => {
                        for t in fields(f.bytes)? {
                            if !(t.wire == 0 && (t.no == 1 || t.no == 2)) {
                                return Err("bad Timestamp".into());
                            }
                        }
                        has_ts = true;
                    }
                    (3, 2) => {
                        let (mut k, mut v) = (String::new(), String::new());
                        for e in fields(f.bytes)? {
                            match (e.no, e.wire) {
                                (1, 2) => k = string(e.bytes)?,
                                (2, 2) => v = string(e.bytes)?,
                                _ => return Err("bad map entry".into()),
                            }
                        }
                        labels.insert(k, v);
                    }
                    (4..=5, 0) | (6..=9, 1) => {
                        if op.is_some() {
                            return Err("two operations in one Metric".into());
                        }
                        op = Some((f.no, f.val));
                    }
                    (n, w) => return Err(format!("unexpected Metric field {} wire {}", n, w)),
                }
            }
            let (op, bits) = op.ok_or("Metric without operation")?;
            Ok(Ev::Metric { name, labels, op, bits, has_ts })
        }
        n => Err(format!("unknown Event member {}", n)),
    }
}

/// Decode a stream of length-delimited events. Returns (events, trailing fragment length) or the
/// first malformed frame.
pub fn decode_stream(b: &[u8]) -> Result<(Vec<Ev>, usize), String> {
    let mut out = vec![];
    let mut i = 0;
    while i < b.len() {
        let start = i;
        let n = match varint(b, &mut i) {
            Some(n) => n as usize,
            None => return Ok((out, b.len() - start)),
        };
        if i + n > b.len() {
            return Ok((out, b.len() - start));
        }
        let ev = decode_event(&b[i..i + n]).map_err(|e| format!("frame {} at byte {}: {}", out.len(), start, e))?;
        out.push(ev);
        i += n;
    }
    Ok((out, 0))
}
