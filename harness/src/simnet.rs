//! Simulated transports (filled in with the exporter scenarios).
pub fn ext(_name: &'static str) -> Option<&'static (dyn std::any::Any + Send + Sync)> {
    None
}
