//! Simulated transports: one backend for every per-crate socket shim (turmoil/madsim are not
//! available). One simulation at a time per process (the batch driver runs workers as separate
//! processes), so the active network hangs off a process-global slot set by the scenario.
//!
//! Behaviours are those of the real primitives:
//! * datagram socket: each send is delivered whole, dropped, duplicated (UDP only) or fails with
//!   ECONNREFUSED / ENOBUFS, per the connection's fault stream;
//! * stream: bounded pipe per direction; `write` returns Ok(n) with n <= free space (short writes
//!   from the fault stream), WouldBlock when full (non-blocking) or Interrupted / BrokenPipe /
//!   ConnectionReset as injected faults; EOF on read after the peer closed;
//! * listener/poll/waker (mio shape): edge-triggered readiness — a writable event when a stream is
//!   registered and whenever its pipe goes from full to not-full, readable when data or EOF
//!   arrives or a connection is queued; spurious events may be injected; `poll` parks the thread.

use crate::framework::{FaultMode, Faults};
use metrics::__verif::net::{Backend, Ready};
use std::collections::{BTreeMap, VecDeque};
use std::io;
use std::net::SocketAddr;
use std::sync::{Arc, Mutex};
use std::time::Duration;

#[derive(Clone, Debug)]
pub struct Delivery {
    pub endpoint: String,
    pub conn: u64,
    pub time: u64,
    pub step: u64,
    pub data: Vec<u8>,
}

#[derive(Clone, Debug)]
pub struct SleepNote {
    pub tid: u32,
    pub enter: bool,
    pub time: u64,
    pub step: u64,
    pub nanos: u64,
}

#[derive(Default)]
pub struct Stream {
    pub endpoint: String,
    /// bytes written by the code under test, as received by the harness peer (per connection)
    pub to_peer: Vec<u8>,
    /// bytes the harness peer sent towards the code under test
    pub from_peer: VecDeque<u8>,
    pub peer_closed: bool,
    pub local_closed: bool,
    pub reset: bool,
    pub ended_by_fault: bool,
    /// outgoing pipe capacity (bytes the peer has not consumed yet)
    pub capacity: usize,
    pub unread_by_peer: usize,
    pub peer_addr: Option<SocketAddr>,
    pub poll: Option<(u64, usize, bool, bool)>,
    pub was_full: bool,
    /// a `send_slow` write on this stream has begun and not yet completed
    pub slow_in_progress: bool,
    /// the previous write call on this stream was interrupted (EINTR): the caller repeats it
    pub last_eintr: bool,
}

#[derive(Default)]
pub struct NetState {
    pub next_id: u64,
    pub dgram_socks: BTreeMap<u64, String>,
    pub streams: BTreeMap<u64, Stream>,
    pub deliveries: Vec<Delivery>,
    /// every datagram handed to a send call, once, whatever became of it (delivered, duplicated,
    /// dropped, or the call failed)
    pub attempts: Vec<Delivery>,
    pub sleeps: Vec<SleepNote>,
    pub listeners: BTreeMap<u64, (SocketAddr, VecDeque<u64>, Option<(u64, usize)>)>,
    pub polls: BTreeMap<u64, VecDeque<Ready>>,
    pub wakers: BTreeMap<u64, (u64, usize)>,
    pub refuse_connect: bool,
    pub default_capacity: usize,
}

pub struct Net {
    pub st: Mutex<NetState>,
    pub faults: Mutex<Faults>,
}

static CURRENT: Mutex<Option<Arc<Net>>> = Mutex::new(None);

/// Install a fresh simulated network for the run that is about to start.
pub fn install(faults: FaultMode) -> Arc<Net> {
    let n = Arc::new(Net { st: Mutex::new(NetState { next_id: 1, default_capacity: 1 << 16, ..Default::default() }), faults: Mutex::new(Faults::new(faults)) });
    *CURRENT.lock().unwrap() = Some(n.clone());
    n
}
pub fn uninstall() {
    *CURRENT.lock().unwrap() = None;
}
/// Scenarios that run the code under test on their own runtime thread (tokio) instead of dsim
/// threads set this for the duration of the run.
pub static ALLOW_OUTSIDE_SIM: std::sync::atomic::AtomicBool = std::sync::atomic::AtomicBool::new(false);

pub fn active() -> bool {
    dsim::in_sim() || ALLOW_OUTSIDE_SIM.load(std::sync::atomic::Ordering::SeqCst)
}

fn cur() -> Option<Arc<Net>> {
    if !active() {
        return None;
    }
    CURRENT.lock().unwrap().clone()
}

pub fn note_sleep(enter: bool, nanos: u64) {
    if let Some(n) = cur() {
        n.st.lock().unwrap().sleeps.push(SleepNote { tid: dsim::tid(), enter, time: dsim::now(), step: dsim::step(), nanos });
    }
}

/// how long a `send_slow` fault keeps a blocking send waiting (virtual time)
pub const SLOW_SEND_NS: [u64; 3] = [2_000_000, 400_000_000, 900_000_000];

/// number of `send_slow` faults injected so far in the current run
pub fn slow_sends() -> usize {
    cur().map_or(0, |n| n.faults.lock().unwrap().fired.iter().filter(|f| f.kind == "send_slow").count())
}

pub struct SimBackend;
pub static BACKEND: SimBackend = SimBackend;

fn no_net() -> io::Error {
    io::Error::new(io::ErrorKind::Other, "no simulated network for this thread")
}

impl Net {
    fn fault(&self, stream: &str, kinds: &[(&'static str, u64, u64)]) -> Option<(&'static str, u64)> {
        self.faults.lock().unwrap().draw(stream, kinds)
    }
    fn push_event(st: &mut NetState, poll: u64, ev: Ready) {
        let q = st.polls.entry(poll).or_default();
        if let Some(e) = q.iter_mut().find(|e| e.token == ev.token) {
            e.readable |= ev.readable;
            e.writable |= ev.writable;
        } else {
            q.push_back(ev);
        }
    }

    // ---- harness-side (peer) operations -----------------------------------------------------
    /// A harness client connects to a listener with an arbitrary peer address.
    pub fn peer_connect(&self, listener_addr: SocketAddr, peer: SocketAddr, capacity: usize) -> Option<u64> {
        let mut st = self.st.lock().unwrap();
        let lid = st.listeners.iter().find(|(_, l)| l.0 == listener_addr).map(|(id, _)| *id)?;
        let id = st.next_id;
        st.next_id += 1;
        st.streams.insert(id, Stream { endpoint: format!("tcp://{}", listener_addr), capacity, peer_addr: Some(peer), ..Default::default() });
        let l = st.listeners.get_mut(&lid).unwrap();
        l.1.push_back(id);
        if let Some((p, tok)) = l.2 {
            Self::push_event(&mut st, p, Ready { token: tok, readable: true, writable: false });
        }
        drop(st);
        dsim::notify_all();
        Some(id)
    }
    /// The peer consumes up to `max` bytes the code under test wrote (frees pipe space).
    pub fn peer_read(&self, conn: u64, max: usize) -> Vec<u8> {
        let mut st = self.st.lock().unwrap();
        let mut out = vec![];
        let mut wake = None;
        if let Some(s) = st.streams.get_mut(&conn) {
            let n = s.unread_by_peer.min(max);
            let start = s.to_peer.len() - s.unread_by_peer;
            out = s.to_peer[start..start + n].to_vec();
            s.unread_by_peer -= n;
            if n > 0 && s.was_full {
                s.was_full = false;
                wake = s.poll;
            }
        }
        if let Some((p, tok, _, w)) = wake {
            if w {
                Self::push_event(&mut st, p, Ready { token: tok, readable: false, writable: true });
            }
        }
        drop(st);
        dsim::notify_all();
        out
    }
    /// True once the code under test has closed / dropped its end of the connection.
    pub fn local_closed(&self, conn: u64) -> bool {
        self.st.lock().unwrap().streams.get(&conn).map(|s| s.local_closed).unwrap_or(true)
    }
    pub fn peer_write(&self, conn: u64, data: &[u8]) {
        let mut st = self.st.lock().unwrap();
        let mut wake = None;
        if let Some(s) = st.streams.get_mut(&conn) {
            s.from_peer.extend(data.iter().copied());
            wake = s.poll;
        }
        if let Some((p, tok, r, _)) = wake {
            if r {
                Self::push_event(&mut st, p, Ready { token: tok, readable: true, writable: false });
            }
        }
        drop(st);
        dsim::notify_all();
    }
    pub fn peer_close(&self, conn: u64, reset: bool) {
        let mut st = self.st.lock().unwrap();
        let mut wake = None;
        if let Some(s) = st.streams.get_mut(&conn) {
            s.peer_closed = true;
            s.reset = reset;
            wake = s.poll;
        }
        if let Some((p, tok, _, _)) = wake {
            Self::push_event(&mut st, p, Ready { token: tok, readable: true, writable: true });
        }
        drop(st);
        dsim::notify_all();
    }
}

impl Backend for SimBackend {
    fn dgram_connect(&self, endpoint: &str) -> io::Result<u64> {
        let n = cur().ok_or_else(no_net)?;
        dsim::point("net.dgram_connect");
        let mut st = n.st.lock().unwrap();
        let id = st.next_id;
        st.next_id += 1;
        st.dgram_socks.insert(id, endpoint.to_string());
        Ok(id)
    }
    fn dgram_send(&self, sock: u64, buf: &[u8]) -> io::Result<usize> {
        let n = cur().ok_or_else(no_net)?;
        dsim::point("net.dgram_send");
        let ep = n.st.lock().unwrap().dgram_socks.get(&sock).cloned().ok_or_else(no_net)?;
        let udp = ep.starts_with("udp://");
        let kinds: &[(&'static str, u64, u64)] = if udp { &[("dgram_drop", 100, 0), ("dgram_dup", 50, 0), ("send_refused", 100, 0), ("send_nobufs", 50, 0), ("send_slow", 60, 2)] } else { &[("send_refused", 100, 0), ("send_nobufs", 100, 0), ("send_timeout", 50, 0), ("send_slow", 60, 2)] };
        let f = n.fault(&format!("dgram:{}", ep), kinds);
        if let Some(("send_slow", arg)) = f {
            // the agent is slow to take the datagram: the blocking send succeeds, but only after a
            // while (shorter than any write timeout the exporters configure)
            dsim::sleep(SLOW_SEND_NS[arg as usize % 3]);
        }
        let mut st = n.st.lock().unwrap();
        let d = Delivery { endpoint: ep, conn: sock, time: dsim::now(), step: dsim::step(), data: buf.to_vec() };
        st.attempts.push(d.clone());
        match f.map(|x| x.0) {
            Some("dgram_drop") => Ok(buf.len()),
            Some("dgram_dup") => {
                st.deliveries.push(d.clone());
                st.deliveries.push(d);
                Ok(buf.len())
            }
            Some("send_refused") => Err(io::Error::new(io::ErrorKind::ConnectionRefused, "simulated ECONNREFUSED")),
            Some("send_nobufs") => Err(io::Error::new(io::ErrorKind::Other, "simulated ENOBUFS")),
            Some("send_timeout") => Err(io::Error::new(io::ErrorKind::WouldBlock, "simulated write timeout")),
            _ => {
                st.deliveries.push(d);
                Ok(buf.len())
            }
        }
    }
    fn stream_connect(&self, endpoint: &str) -> io::Result<u64> {
        let n = cur().ok_or_else(no_net)?;
        dsim::point("net.stream_connect");
        if n.fault(&format!("connect:{}", endpoint), &[("connect_refused", 150, 0)]).is_some() {
            return Err(io::Error::new(io::ErrorKind::ConnectionRefused, "simulated ECONNREFUSED"));
        }
        let mut st = n.st.lock().unwrap();
        let id = st.next_id;
        st.next_id += 1;
        let cap = st.default_capacity;
        st.streams.insert(id, Stream { endpoint: endpoint.to_string(), capacity: cap, ..Default::default() });
        Ok(id)
    }
    fn stream_write(&self, sock: u64, buf: &[u8]) -> io::Result<usize> {
        let n = cur().ok_or_else(no_net)?;
        dsim::point("net.stream_write");
        let (ep, blocking) = n.st.lock().unwrap().streams.get(&sock).map(|s| (s.endpoint.clone(), s.poll.is_none() && dsim::in_sim())).ok_or_else(no_net)?;
        let kinds: &[(&'static str, u64, u64)] = if blocking {
            &[("short_write", 150, 64), ("write_eintr", 60, 0), ("write_epipe", 40, 0), ("write_reset", 30, 0), ("write_wouldblock", 60, 0), ("send_slow", 60, 2)]
        } else {
            &[("short_write", 150, 64), ("write_eintr", 60, 0), ("write_epipe", 40, 0), ("write_reset", 30, 0), ("write_wouldblock", 60, 0)]
        };
        let f = n.fault(&format!("stream:{}:{}", ep, sock), kinds);
        if let Some(("send_slow", arg)) = f {
            // a blocking stream whose peer drains slowly: the write completes, late
            if let Some(s) = n.st.lock().unwrap().streams.get_mut(&sock) {
                s.slow_in_progress = true;
            }
            dsim::sleep(SLOW_SEND_NS[arg as usize % 3]);
            if let Some(s) = n.st.lock().unwrap().streams.get_mut(&sock) {
                s.slow_in_progress = false;
            }
        }
        let mut st = n.st.lock().unwrap();
        let now = dsim::now();
        let step = dsim::step();
        // a write call that starts a length-prefixed frame (the prefix announces exactly the rest of
        // the buffer; the continuation of a short write starts with text bytes, which read as a
        // length of many megabytes) is logged as one attempt to send that frame, whatever becomes of
        // it; the repetition of an interrupted call is the same attempt
        let repeat = st.streams.get_mut(&sock).map_or(false, |s| std::mem::take(&mut s.last_eintr));
        if !repeat && buf.len() > 4 && u32::from_le_bytes([buf[0], buf[1], buf[2], buf[3]]) as usize == buf.len() - 4 {
            st.attempts.push(Delivery { endpoint: ep.clone(), conn: sock, time: now, step, data: buf[4..].to_vec() });
        }
        let s = st.streams.get_mut(&sock).ok_or_else(no_net)?;
        if s.peer_closed || s.reset {
            s.ended_by_fault = true;
            return Err(io::Error::new(if s.reset { io::ErrorKind::ConnectionReset } else { io::ErrorKind::BrokenPipe }, "peer closed"));
        }
        match f {
            Some(("write_eintr", _)) => {
                s.last_eintr = true;
                return Err(io::Error::new(io::ErrorKind::Interrupted, "simulated EINTR"));
            }
            Some(("write_epipe", _)) => {
                s.ended_by_fault = true;
                s.peer_closed = true;
                return Err(io::Error::new(io::ErrorKind::BrokenPipe, "simulated EPIPE"));
            }
            Some(("write_reset", _)) => {
                s.ended_by_fault = true;
                s.reset = true;
                return Err(io::Error::new(io::ErrorKind::ConnectionReset, "simulated ECONNRESET"));
            }
            Some(("write_wouldblock", _)) => {
                // a blocking socket with a write timeout reports the timeout as WouldBlock;
                // a non-blocking one reports a momentarily full buffer the same way
                // For a polled (non-blocking) stream EAGAIN is followed by a writable edge as soon
                // as space frees up — here at once, since the buffer was only momentarily full.
                let polled = s.poll;
                if polled.is_none() {
                    s.ended_by_fault = true;
                }
                if let Some((p, tok, _, w)) = polled {
                    if w {
                        Net::push_event(&mut st, p, Ready { token: tok, readable: false, writable: true });
                    }
                }
                return Err(io::Error::new(io::ErrorKind::WouldBlock, "simulated EAGAIN"));
            }
            _ => {}
        }
        let free = s.capacity.saturating_sub(s.unread_by_peer);
        if free == 0 && !buf.is_empty() {
            s.was_full = true;
            if s.poll.is_none() {
                s.ended_by_fault = true;
            }
            return Err(io::Error::new(io::ErrorKind::WouldBlock, "pipe full"));
        }
        let mut nbytes = buf.len().min(free);
        let mut short_edge: Option<(u64, usize)> = None;
        if let Some(("short_write", arg)) = f {
            let full = nbytes;
            nbytes = nbytes.min(1 + arg as usize).max(1).min(buf.len());
            // a short write that the buffer's real free space does not explain stands for "the
            // buffer was momentarily full": on a polled stream the writable edge follows at once
            if nbytes < full {
                if let Some((p, tok, _, w)) = s.poll {
                    if w {
                        short_edge = Some((p, tok));
                    }
                }
            }
        }
        s.to_peer.extend_from_slice(&buf[..nbytes]);
        s.unread_by_peer += nbytes;
        if s.unread_by_peer >= s.capacity {
            s.was_full = true;
        }
        let ep2 = s.endpoint.clone();
        st.deliveries.push(Delivery { endpoint: ep2, conn: sock, time: now, step, data: buf[..nbytes].to_vec() });
        if let Some((p, tok)) = short_edge {
            Net::push_event(&mut st, p, Ready { token: tok, readable: false, writable: true });
        }
        drop(st);
        dsim::notify_all();
        Ok(nbytes)
    }
    fn stream_read(&self, sock: u64, buf: &mut [u8]) -> io::Result<usize> {
        let n = cur().ok_or_else(no_net)?;
        dsim::point("net.stream_read");
        {
            let st = n.st.lock().unwrap();
            let s = st.streams.get(&sock).ok_or_else(no_net)?;
            if s.reset {
                return Err(io::Error::new(io::ErrorKind::ConnectionReset, "reset by peer"));
            }
            if s.from_peer.is_empty() {
                if s.peer_closed {
                    return Ok(0);
                }
                return Err(io::Error::new(io::ErrorKind::WouldBlock, "no data"));
            }
        }
        // faults are drawn only when the read would otherwise succeed, so that the number of empty
        // polls (timing) never shifts the fault stream
        let f = n.fault(&format!("read:{}", sock), &[("read_eintr", 50, 0), ("short_read", 150, 16)]);
        let mut st = n.st.lock().unwrap();
        let s = st.streams.get_mut(&sock).ok_or_else(no_net)?;
        if let Some(("read_eintr", _)) = f {
            return Err(io::Error::new(io::ErrorKind::Interrupted, "simulated EINTR"));
        }
        let mut k = buf.len().min(s.from_peer.len());
        if let Some(("short_read", arg)) = f {
            k = k.min(1 + arg as usize);
        }
        for b in buf.iter_mut().take(k) {
            *b = s.from_peer.pop_front().unwrap();
        }
        Ok(k)
    }
    fn stream_peer(&self, sock: u64) -> io::Result<SocketAddr> {
        let n = cur().ok_or_else(no_net)?;
        // the peer reset the connection before it was looked at: getpeername fails with ENOTCONN
        if n.fault(&format!("peer:{}", sock), &[("peer_addr_fail", 60, 0)]).is_some() {
            return Err(io::Error::new(io::ErrorKind::NotConnected, "simulated ENOTCONN"));
        }
        let st = n.st.lock().unwrap();
        st.streams.get(&sock).and_then(|s| s.peer_addr).ok_or_else(|| io::Error::new(io::ErrorKind::NotConnected, "no peer"))
    }
    fn close(&self, sock: u64) {
        if let Some(n) = cur() {
            let mut st = n.st.lock().unwrap();
            if let Some(s) = st.streams.get_mut(&sock) {
                s.local_closed = true;
                s.poll = None;
            }
            st.dgram_socks.remove(&sock);
            drop(st);
            dsim::notify_all();
        }
    }
    fn listen(&self, addr: SocketAddr) -> io::Result<u64> {
        let n = cur().ok_or_else(no_net)?;
        let mut st = n.st.lock().unwrap();
        let id = st.next_id;
        st.next_id += 1;
        st.listeners.insert(id, (addr, VecDeque::new(), None));
        Ok(id)
    }
    fn accept(&self, listener: u64) -> io::Result<(u64, SocketAddr)> {
        let n = cur().ok_or_else(no_net)?;
        dsim::point("net.accept");
        // the process is momentarily out of file descriptors: accept fails, the connection stays
        // queued (only where a connection is pending, and only for listeners driven outside dsim:
        // the HTTP listener's accept loop)
        if !dsim::in_sim() {
            let pending = n.st.lock().unwrap().listeners.get(&listener).map_or(false, |l| !l.1.is_empty());
            if pending && n.fault(&format!("accept:{}", listener), &[("accept_emfile", 60, 0)]).is_some() {
                return Err(io::Error::from_raw_os_error(24));
            }
        }
        // a client that connected and reset before it was accepted: accept() fails with ECONNABORTED
        // and that connection is gone (listeners driven under dsim: the TCP exporter's transport)
        if dsim::in_sim() {
            let pending = n.st.lock().unwrap().listeners.get(&listener).map_or(false, |l| !l.1.is_empty());
            if pending && n.fault(&format!("accept:{}", listener), &[("accept_aborted", 40, 0)]).is_some() {
                let mut st = n.st.lock().unwrap();
                if let Some(id) = st.listeners.get_mut(&listener).and_then(|l| l.1.pop_front()) {
                    if let Some(s) = st.streams.get_mut(&id) {
                        s.reset = true;
                        s.ended_by_fault = true;
                    }
                }
                return Err(io::Error::new(io::ErrorKind::ConnectionAborted, "simulated ECONNABORTED"));
            }
        }
        let mut st = n.st.lock().unwrap();
        let l = st.listeners.get_mut(&listener).ok_or_else(no_net)?;
        match l.1.pop_front() {
            Some(id) => {
                let peer = st.streams.get(&id).and_then(|s| s.peer_addr).unwrap_or_else(|| "0.0.0.0:0".parse().unwrap());
                Ok((id, peer))
            }
            None => Err(io::Error::new(io::ErrorKind::WouldBlock, "no pending connection")),
        }
    }
    fn poll_create(&self) -> io::Result<u64> {
        let n = cur().ok_or_else(no_net)?;
        let mut st = n.st.lock().unwrap();
        let id = st.next_id;
        st.next_id += 1;
        st.polls.insert(id, VecDeque::new());
        Ok(id)
    }
    fn poll_register(&self, poll: u64, source: u64, token: usize, readable: bool, writable: bool) -> io::Result<()> {
        let n = cur().ok_or_else(no_net)?;
        let mut st = n.st.lock().unwrap();
        if let Some(l) = st.listeners.get_mut(&source) {
            l.2 = Some((poll, token));
            if !l.1.is_empty() {
                Net::push_event(&mut st, poll, Ready { token, readable: true, writable: false });
            }
            return Ok(());
        }
        let mut ev = None;
        if let Some(s) = st.streams.get_mut(&source) {
            s.poll = Some((poll, token, readable, writable));
            // edge-triggered: initial readiness is reported once at registration
            let r = readable && (!s.from_peer.is_empty() || s.peer_closed);
            let w = writable && s.unread_by_peer < s.capacity;
            if r || w {
                ev = Some(Ready { token, readable: r, writable: w });
            }
        } else {
            return Err(no_net());
        }
        if let Some(e) = ev {
            Net::push_event(&mut st, poll, e);
        }
        Ok(())
    }
    fn poll_deregister(&self, _poll: u64, source: u64) -> io::Result<()> {
        let n = cur().ok_or_else(no_net)?;
        let mut st = n.st.lock().unwrap();
        if let Some(s) = st.streams.get_mut(&source) {
            s.poll = None;
        }
        if let Some(l) = st.listeners.get_mut(&source) {
            l.2 = None;
        }
        Ok(())
    }
    fn poll_wait(&self, poll: u64, max_events: usize, timeout: Option<Duration>) -> io::Result<Vec<Ready>> {
        let n = cur().ok_or_else(no_net)?;
        dsim::point("net.poll");
        if n.fault(&format!("poll:{}", poll), &[("poll_eintr", 30, 0)]).is_some() {
            return Err(io::Error::new(io::ErrorKind::Interrupted, "simulated EINTR"));
        }
        let deadline = timeout.map(|d| dsim::now().saturating_add(d.as_nanos() as u64));
        loop {
            {
                let mut st = n.st.lock().unwrap();
                let q = st.polls.get_mut(&poll).ok_or_else(no_net)?;
                if !q.is_empty() {
                    let k = q.len().min(max_events.max(1));
                    let evs: Vec<Ready> = q.drain(..k).collect();
                    return Ok(evs);
                }
            }
            match deadline {
                Some(d) => {
                    let now = dsim::now();
                    if now >= d {
                        return Ok(vec![]);
                    }
                    if dsim::wait_timeout("net.poll.wait", d - now) {
                        return Ok(vec![]);
                    }
                }
                None => dsim::wait("net.poll.wait"),
            }
        }
    }
    fn waker_create(&self, poll: u64, token: usize) -> io::Result<u64> {
        let n = cur().ok_or_else(no_net)?;
        let mut st = n.st.lock().unwrap();
        let id = st.next_id;
        st.next_id += 1;
        st.wakers.insert(id, (poll, token));
        Ok(id)
    }
    fn wake(&self, waker: u64) -> io::Result<()> {
        let n = cur().ok_or_else(no_net)?;
        dsim::point("net.wake");
        let mut st = n.st.lock().unwrap();
        if let Some((p, tok)) = st.wakers.get(&waker).copied() {
            Net::push_event(&mut st, p, Ready { token: tok, readable: true, writable: false });
        }
        drop(st);
        dsim::notify_all();
        Ok(())
    }
}

pub fn ext(_name: &'static str) -> Option<&'static (dyn std::any::Any + Send + Sync)> {
    None
}
