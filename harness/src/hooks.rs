//! Glue: `metrics::__verif::Hooks` → dsim. Installed once per process; threads that are not
//! simulated threads get pass-through behaviour.

use metrics::__verif::{Hooks, Site};
use std::time::Duration;

pub struct DsimHooks;

impl Hooks for DsimHooks {
    fn sync_point(&self, op: &'static str, site: Site) {
        dsim::sync_point(op, site.file(), site.line());
    }
    fn spin(&self, op: &'static str, site: Site) {
        dsim::spin(op, site.file(), site.line());
    }
    fn probe(&self, name: &'static str) {
        dsim::probe(name);
    }
    fn spawn(
        &self,
        name: &str,
        f: Box<dyn FnOnce() + Send + 'static>,
    ) -> Option<Box<dyn FnOnce() + Send + 'static>> {
        dsim::adopt_thread(name, f)
    }
    fn sleep(&self, dur: Duration) -> bool {
        if dsim::in_sim() {
            crate::simnet::note_sleep(true, dur.as_nanos() as u64);
            dsim::sleep(dur.as_nanos() as u64);
            crate::simnet::note_sleep(false, dur.as_nanos() as u64);
            true
        } else {
            false
        }
    }
    fn now_nanos(&self) -> Option<u64> {
        if dsim::in_sim() {
            Some(dsim::now())
        } else {
            None
        }
    }
    fn rng_seed(&self) -> Option<u64> {
        dsim::code_rng_seed()
    }
    fn net(&self) -> Option<&dyn metrics::__verif::net::Backend> {
        if crate::simnet::active() {
            Some(&crate::simnet::BACKEND)
        } else {
            None
        }
    }
    fn ext(&self, name: &'static str) -> Option<&(dyn std::any::Any + Send + Sync)> {
        crate::simnet::ext(name)
    }
}

pub fn install() {
    metrics::__verif::install(Box::new(DsimHooks));
    dsim::install_quiet_panic_hook();
}
