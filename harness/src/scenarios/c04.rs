//! C04 — counter, gauge and histogram handles apply every update exactly once.
//! Real `Counter/Gauge/Histogram` handles over the standard atomic storage (`Arc<AtomicU64>`,
//! shimmed: each RMW / CAS-loop step is a sync point) and `Arc<AtomicBucket<f64>>`, plus logging
//! `HistogramFn` doubles; handle clones used from 2–4 threads.

use crate::framework::*;
use dsim::Rng;
use metrics::atomics::AtomicU64;
use metrics::{Counter, Gauge, Histogram, HistogramFn};
use metrics_util::storage::AtomicBucket;
use serde::{Deserialize, Serialize};
use std::sync::atomic::Ordering;
use std::sync::{Arc, Mutex};
use std::time::Duration;

#[derive(Clone, Debug, Serialize, Deserialize, PartialEq)]
pub enum Op {
    CInc(u64),
    CAbs(u64),
    CLoad,
    GInc(i32),
    GDec(i32),
    GSet(i32),
    GSetBits(u64),
    HRec(u64),       // f64 bits
    HRecMany(u64, u32),
    /// a large batch through the default `record_many` of a histogram that only implements
    /// `record` (counts around 1024 and beyond): exactly that many samples arrive
    HOneMany(u64, u32),
    HRecDur(u64),    // nanos, through Duration
    HRecU32(u32),
    HRecI16(i16),
    HRecF32(u32),    // f32 bits
    HHuge(u64, u64), // record_many(v, huge count) on the cheap double only
    Noop,
}

#[derive(Clone, Debug, Serialize, Deserialize, PartialEq)]
pub enum Mode {
    IncOnly,
    AbsOnly,
    Mixed,
}

#[derive(Clone, Debug, Serialize, Deserialize)]
pub struct Plan {
    pub mode: Mode,
    pub threads: Vec<Vec<Op>>,
    pub final_set: Option<u64>,
}

struct ManyDouble {
    log: Mutex<Vec<(u64, u64)>>, // (bits, count)
}
impl HistogramFn for ManyDouble {
    fn record(&self, value: f64) {
        self.log.lock().unwrap().push((value.to_bits(), 1));
    }
    fn record_many(&self, value: f64, count: usize) {
        self.log.lock().unwrap().push((value.to_bits(), count as u64));
    }
}
struct OneDouble {
    log: Mutex<Vec<u64>>,
}
impl HistogramFn for OneDouble {
    fn record(&self, value: f64) {
        self.log.lock().unwrap().push(value.to_bits());
    }
}

#[derive(Clone, Debug)]
struct Ev {
    tid: u32,
    inv: u64,
    ret: u64,
    op: Op,
    loaded: u64,
}

pub struct C04Handles;

const SPECIAL_F: [u64; 8] = [
    0x7ff8000000000000, // NaN
    0x7ff0000000000000, // +inf
    0xfff0000000000000, // -inf
    0x0000000000000000,
    0x8000000000000000, // -0.0
    0x7fefffffffffffff, // MAX
    0x0000000000000001, // min subnormal
    0x3ff0000000000000, // 1.0
];

impl Scenario for C04Handles {
    type Plan = Plan;
    fn property(&self) -> &'static str {
        "C04"
    }
    fn name(&self) -> &'static str {
        "handles"
    }
    fn horizon(&self) -> u64 {
        250
    }
    fn plan(&self, r: &mut Rng, tier: Tier) -> Plan {
        let mode = match r.below(3) {
            0 => Mode::IncOnly,
            1 => Mode::AbsOnly,
            _ => Mode::Mixed,
        };
        // "contention" profile: many threads hammering the gauge with deltas only, so that one
        // update can lose its compare-and-swap many times in a row
        let contention = r.chance(120);
        let nthreads = if contention { 6 } else { r.range(2, 4) as usize };
        let max_ops = if tier == Tier::Thorough { 10 } else { 7 };
        let mut threads = vec![];
        let use_set = !contention && r.chance(300);
        for _ in 0..nthreads {
            let n = if contention { 14 } else { r.range(1, max_ops) };
            let mut ops = vec![];
            for _ in 0..n {
                let op = match if contention { 5 + r.below(5) } else { r.below(16) } {
                    0..=3 => match mode {
                        Mode::IncOnly => Op::CInc(*r.pick(&[1u64, 2, 3, 1 << 40, u64::MAX, u64::MAX / 2 + 1, 0])),
                        Mode::AbsOnly => Op::CAbs(r.below(50)),
                        Mode::Mixed => {
                            if r.chance(500) {
                                Op::CInc(*r.pick(&[1u64, 7, u64::MAX, 0]))
                            } else {
                                Op::CAbs(*r.pick(&[0u64, 5, 100, u64::MAX]))
                            }
                        }
                    },
                    4 => Op::CLoad,
                    5..=7 => Op::GInc(r.below(1000) as i32),
                    8..=9 => Op::GDec(r.below(1000) as i32),
                    10 => {
                        if use_set {
                            Op::GSet(r.below(1000) as i32)
                        } else {
                            Op::GInc(1)
                        }
                    }
                    11 => Op::HRec(*r.pick(&SPECIAL_F)),
                    12 => {
                        if r.chance(80) {
                            Op::HOneMany(((r.below(100) as f64) + 0.25).to_bits(), *r.pick(&[1023u32, 1024, 1025, 2500]))
                        } else {
                            Op::HRecMany(((r.below(100) as f64) + 0.5).to_bits(), r.below(5) as u32)
                        }
                    }
                    13 => match r.below(5) {
                        0 => Op::HRecDur(r.below(10_000_000_000)),
                        1 => Op::HRecU32(*r.pick(&[0u32, 1, u32::MAX])),
                        2 => Op::HRecI16(*r.pick(&[0i16, -1, i16::MIN, i16::MAX])),
                        3 => Op::HRecF32(*r.pick(&[0x7fc00000u32, 0x3f800000, 0x7f800000, 0x00000001])),
                        _ => Op::HHuge(*r.pick(&SPECIAL_F), *r.pick(&[u64::MAX, usize::MAX as u64, 1 << 40, 0])),
                    },
                    14 => Op::Noop,
                    _ => Op::GSetBits(*r.pick(&SPECIAL_F)),
                };
                // GSetBits only makes sense when the exact-sum check is off
                let op = if let Op::GSetBits(b) = op {
                    if use_set {
                        Op::GSetBits(b)
                    } else {
                        Op::HRec(b)
                    }
                } else {
                    op
                };
                ops.push(op);
            }
            threads.push(ops);
        }
        Plan { mode, threads, final_set: if r.chance(300) { Some(*r.pick(&SPECIAL_F)) } else { None } }
    }
    fn execute(&self, plan: &Plan, sched: &SchedSpec) -> RunReport {
        let hist: Arc<Mutex<Vec<Ev>>> = Arc::new(Mutex::new(vec![]));
        let finals: Arc<Mutex<(u64, u64, Vec<u64>, Vec<(u64, u64)>, Vec<u64>, u64)>> = Arc::new(Mutex::new((0, 0, vec![], vec![], vec![], 0)));
        let p = plan.clone();
        let seq_err: Arc<Mutex<Option<String>>> = Arc::new(Mutex::new(None));
        let (h2, f2, se2) = (hist.clone(), finals.clone(), seq_err.clone());
        let sim = simulate(sched, 60_000, move || {
            let c_store = Arc::new(AtomicU64::new(0));
            let g_store = Arc::new(AtomicU64::new(0f64.to_bits()));
            let bucket: Arc<AtomicBucket<f64>> = Arc::new(AtomicBucket::new());
            let many = Arc::new(ManyDouble { log: Mutex::new(vec![]) });
            let one = Arc::new(OneDouble { log: Mutex::new(vec![]) });
            let counter = Counter::from_arc(c_store.clone());
            let gauge = Gauge::from_arc(g_store.clone());
            let h_bucket = Histogram::from_arc(bucket.clone());
            let h_many = Histogram::from_arc(many.clone());
            let h_one = Histogram::from_arc(one.clone());
            let mut hs = vec![];
            for (ti, ops) in p.threads.iter().enumerate() {
                let ops = ops.clone();
                let hist = h2.clone();
                let (counter, gauge, h_bucket, h_many, h_one) = (counter.clone(), gauge.clone(), h_bucket.clone(), h_many.clone(), h_one.clone());
                let c_store = c_store.clone();
                hs.push(dsim::spawn(&format!("w{}", ti + 1), move || {
                    for op in ops {
                        dsim::point("c04.op");
                        let inv = dsim::step();
                        let mut loaded = 0;
                        match &op {
                            Op::CInc(v) => counter.increment(*v),
                            Op::CAbs(v) => counter.absolute(*v),
                            Op::CLoad => loaded = c_store.load(Ordering::SeqCst),
                            Op::GInc(v) => gauge.increment(*v as f64),
                            Op::GDec(v) => gauge.decrement(*v as f64),
                            Op::GSet(v) => gauge.set(*v as f64),
                            Op::GSetBits(b) => gauge.set(f64::from_bits(*b)),
                            Op::HRec(b) => {
                                h_bucket.record(f64::from_bits(*b));
                                h_one.record(f64::from_bits(*b));
                            }
                            Op::HOneMany(b, n) => h_one.record_many(f64::from_bits(*b), *n as usize),
                            Op::HRecMany(b, n) => {
                                h_bucket.record_many(f64::from_bits(*b), *n as usize);
                                h_one.record_many(f64::from_bits(*b), *n as usize);
                                h_many.record_many(f64::from_bits(*b), *n as usize);
                            }
                            Op::HRecDur(n) => h_one.record(Duration::from_nanos(*n)),
                            Op::HRecU32(v) => h_one.record(*v),
                            Op::HRecI16(v) => h_one.record(*v),
                            Op::HRecF32(b) => h_one.record(f32::from_bits(*b)),
                            Op::HHuge(b, n) => h_many.record_many(f64::from_bits(*b), *n as usize),
                            Op::Noop => {
                                Counter::noop().increment(5);
                                Counter::noop().absolute(5);
                                Gauge::noop().set(1.0);
                                Gauge::noop().increment(1.0);
                                Gauge::noop().decrement(1.0);
                                Histogram::noop().record(1.0);
                                Histogram::noop().record_many(1.0, usize::MAX);
                            }
                        }
                        let ret = dsim::step();
                        hist.lock().unwrap().push(Ev { tid: dsim::tid(), inv, ret, op, loaded });
                    }
                }));
            }
            for h in hs {
                h.join();
            }
            let mut set_seen = 0;
            if let Some(b) = p.final_set {
                gauge.set(f64::from_bits(b));
                set_seen = g_store.load(Ordering::SeqCst);
            }
            let mut f = f2.lock().unwrap();
            f.0 = c_store.load(Ordering::SeqCst);
            f.1 = g_store.load(Ordering::SeqCst);
            let mut vals: Vec<u64> = vec![];
            bucket.clear_with(|s| vals.extend(s.iter().map(|x| x.to_bits())));
            f.2 = vals;
            f.3 = many.log.lock().unwrap().clone();
            f.4 = one.log.lock().unwrap().clone();
            f.5 = set_seen;
            drop(f);
            // sequential epilogue over two retained clones: a set leaves exactly the value given,
            // also when the same handle set that same value before and another clone moved the
            // gauge in between
            let (a, b) = (gauge.clone(), gauge.clone());
            let mut steps: Vec<(&str, u64)> = vec![];
            a.set(5.0);
            steps.push(("a.set(5)", g_store.load(Ordering::SeqCst)));
            b.increment(1.0);
            steps.push(("b.increment(1)", g_store.load(Ordering::SeqCst)));
            a.set(5.0);
            steps.push(("a.set(5)", g_store.load(Ordering::SeqCst)));
            b.set(7.0);
            steps.push(("b.set(7)", g_store.load(Ordering::SeqCst)));
            a.set(5.0);
            steps.push(("a.set(5)", g_store.load(Ordering::SeqCst)));
            a.decrement(2.0);
            steps.push(("a.decrement(2)", g_store.load(Ordering::SeqCst)));
            a.set(5.0);
            steps.push(("a.set(5)", g_store.load(Ordering::SeqCst)));
            let want = [5.0f64, 6.0, 5.0, 7.0, 5.0, 3.0, 5.0];
            if steps.iter().zip(want.iter()).any(|(s, w)| f64::from_bits(s.1) != *w) {
                *se2.lock().unwrap() = Some(format!("sequence {:?} left the gauge at {:?}, expected {:?}", steps.iter().map(|s| s.0).collect::<Vec<_>>(), steps.iter().map(|s| f64::from_bits(s.1)).collect::<Vec<_>>(), want));
            }
        });
        let mut rep = RunReport::ok(sim);
        let simr = rep.sim.as_ref().unwrap();
        let h = hist.lock().unwrap().clone();
        let f = finals.lock().unwrap().clone();
        let mut v = None;
        if !simr.panics.is_empty() {
            v = violation("panic", format!("{:?}", simr.panics));
        } else if simr.end == dsim::End::Completed {
            v = check(plan, &h, &f);
            if v.is_none() {
                if let Some(d) = seq_err.lock().unwrap().clone() {
                    v = violation("gauge-set-exact", d);
                }
            }
        }
        if v.is_none() && simr.panics.is_empty() && simr.end == dsim::End::StepBudget {
            // every handle operation is lock-free: a retry is caused by another thread's success, of
            // which a plan holds at most a few dozen; a whole plan takes a few hundred steps
            v = violation("operation-never-returns", format!("after {} scheduling steps the plan's operations had not all returned ({} of {} completed): some handle operation spins without making progress", simr.steps, h.len(), plan.threads.iter().map(|t| t.len()).sum::<usize>()));
        }
        rep.observations = format!("{:?} finals={:?}", h, f);
        rep.history_hash = crate::util::hash_str(&rep.observations);
        rep.count("ops", h.len() as u64);
        rep.violation = v;
        rep
    }
    fn shrink(&self, p: &Plan) -> Vec<Plan> {
        let mut out = vec![];
        if p.threads.len() > 1 {
            for i in 0..p.threads.len() {
                let mut q = p.clone();
                q.threads.remove(i);
                out.push(q);
            }
        }
        for i in 0..p.threads.len() {
            for j in 0..p.threads[i].len() {
                if p.threads[i].len() > 1 {
                    let mut q = p.clone();
                    q.threads[i].remove(j);
                    out.push(q);
                }
            }
        }
        if p.final_set.is_some() {
            let mut q = p.clone();
            q.final_set = None;
            out.push(q);
        }
        out
    }
    fn real_components(&self) -> Vec<&'static str> {
        vec!["metrics::{Counter,Gauge,Histogram} handles and clones", "impl CounterFn/GaugeFn for AtomicU64 (metrics/src/atomics.rs)", "IntoF64 conversions", "HistogramFn default record_many", "AtomicBucket<f64> as histogram storage"]
    }
    fn stub_components(&self) -> Vec<&'static str> {
        vec!["thread scheduler (dsim)", "logging HistogramFn doubles"]
    }
}

type Finals = (u64, u64, Vec<u64>, Vec<(u64, u64)>, Vec<u64>, u64);

fn check(plan: &Plan, h: &[Ev], f: &Finals) -> Option<Violation> {
    // ---- counter
    let incs: Vec<u64> = h.iter().filter_map(|e| if let Op::CInc(v) = e.op { Some(v) } else { None }).collect();
    let abss: Vec<u64> = h.iter().filter_map(|e| if let Op::CAbs(v) = e.op { Some(v) } else { None }).collect();
    match plan.mode {
        Mode::IncOnly => {
            let sum = incs.iter().fold(0u64, |a, b| a.wrapping_add(*b));
            if f.0 != sum {
                return violation("counter-sum", format!("increment-only counter ended at {} but the increments sum to {} (mod 2^64)", f.0, sum));
            }
        }
        Mode::AbsOnly => {
            let mx = abss.iter().copied().max().unwrap_or(0);
            if f.0 != mx {
                return violation("counter-absolute-max", format!("absolute-only counter ended at {}, largest absolute given is {}", f.0, mx));
            }
            // observer loads never decrease in real-time order
            let loads: Vec<&Ev> = h.iter().filter(|e| e.op == Op::CLoad).collect();
            for a in &loads {
                for b in &loads {
                    if a.ret < b.inv && b.loaded < a.loaded {
                        return violation("counter-decreased", format!("absolute-only counter read {} at step {} then {} at step {}", a.loaded, a.ret, b.loaded, b.inv));
                    }
                }
                // a load invoked after an absolute(v) returned must see >= v
                for e in h.iter() {
                    if let Op::CAbs(v) = e.op {
                        if e.ret < a.inv && a.loaded < v {
                            return violation("counter-absolute-lost", format!("absolute({}) returned at step {} but a later load at step {} saw {}", v, e.ret, a.inv, a.loaded));
                        }
                    }
                }
            }
        }
        Mode::Mixed => {}
    }
    // ---- gauge
    let sets: Vec<&Ev> = h.iter().filter(|e| matches!(e.op, Op::GSet(_) | Op::GSetBits(_))).collect();
    let deltas: Vec<(&Ev, f64)> = h
        .iter()
        .filter_map(|e| match e.op {
            Op::GInc(v) => Some((e, v as f64)),
            Op::GDec(v) => Some((e, -(v as f64))),
            _ => None,
        })
        .collect();
    if let Some(b) = plan.final_set {
        if f.5 != b {
            return violation("gauge-set-exact", format!("set({:#x}) with no concurrent writer left bits {:#x}", b, f.5));
        }
    } else if sets.is_empty() {
        let sum: f64 = deltas.iter().map(|d| d.1).sum();
        if f64::from_bits(f.1) != sum {
            return violation("gauge-delta-lost", format!("gauge ended at {} but the (integer-valued) increments/decrements sum to {}", f64::from_bits(f.1), sum));
        }
    } else if sets.len() == 1 {
        if let Op::GSet(sv) = sets[0].op {
            let s = sets[0];
            let must: f64 = deltas.iter().filter(|d| d.0.inv > s.ret).map(|d| d.1).sum();
            let maybe: Vec<f64> = deltas.iter().filter(|d| !(d.0.inv > s.ret) && !(d.0.ret < s.inv)).map(|d| d.1).collect();
            let got = f64::from_bits(f.1);
            let mut ok = false;
            if maybe.len() <= 16 {
                for mask in 0..(1u32 << maybe.len()) {
                    let mut t = sv as f64 + must;
                    for (i, m) in maybe.iter().enumerate() {
                        if mask & (1 << i) != 0 {
                            t += m;
                        }
                    }
                    if t == got {
                        ok = true;
                        break;
                    }
                }
            } else {
                ok = true;
            }
            if !ok {
                return violation("gauge-not-linearizable", format!("gauge ended at {} which no linearization of set({}) with the concurrent increments/decrements explains", got, sv));
            }
        }
    }
    // ---- histograms
    // bucket: every recorded value n times
    let mut expect_bucket: Vec<u64> = vec![];
    let mut expect_one: Vec<u64> = vec![];
    let mut expect_many: Vec<(u64, u64)> = vec![];
    for e in h {
        match &e.op {
            Op::HRec(b) => {
                expect_bucket.push(*b);
                expect_one.push(*b);
            }
            Op::HRecMany(b, n) => {
                for _ in 0..*n {
                    expect_bucket.push(*b);
                    expect_one.push(*b);
                }
                expect_many.push((*b, *n as u64));
            }
            Op::HOneMany(b, n) => {
                for _ in 0..*n {
                    expect_one.push(*b);
                }
            }
            Op::HRecDur(n) => expect_one.push(Duration::from_nanos(*n).as_secs_f64().to_bits()),
            Op::HRecU32(v) => expect_one.push((*v as f64).to_bits()),
            Op::HRecI16(v) => expect_one.push((*v as f64).to_bits()),
            Op::HRecF32(b) => expect_one.push((f32::from_bits(*b) as f64).to_bits()),
            Op::HHuge(b, n) => expect_many.push((*b, *n)),
            _ => {}
        }
    }
    let norm = |v: &Vec<u64>| {
        let mut v = v.clone();
        v.sort();
        v
    };
    if norm(&expect_bucket) != norm(&f.2) {
        return violation("histogram-bucket-count", format!("bucket storage holds {} values, {} were recorded (multisets differ)", f.2.len(), expect_bucket.len()));
    }
    if norm(&expect_one) != norm(&f.4) {
        return violation("histogram-record-count", format!("logging double saw {} record() calls, expected {} (record_many(v,n) must deliver v n times, conversions as documented)", f.4.len(), expect_one.len()));
    }
    // The handle forwards record_many to the storage's own record_many when it goes through
    // `Histogram::from_arc` (Arc<T> forwards only `record`, so the default loop applies): either
    // one (v, n) entry or n (v, 1) entries are acceptable deliveries of "v exactly n times".
    let mut got_total: std::collections::BTreeMap<u64, u128> = Default::default();
    for (b, n) in &f.3 {
        *got_total.entry(*b).or_insert(0) += *n as u128;
    }
    let mut exp_total: std::collections::BTreeMap<u64, u128> = Default::default();
    for (b, n) in &expect_many {
        *exp_total.entry(*b).or_insert(0) += *n as u128;
    }
    got_total.retain(|_, v| *v != 0);
    exp_total.retain(|_, v| *v != 0);
    if got_total != exp_total {
        return violation("histogram-record-many-count", format!("record_many totals differ: got {:?}, expected {:?}", got_total, exp_total));
    }
    None
}
