//! C12 — idle metrics are dropped exactly when they were idle longer than the timeout.
//! The nondeterminism here is the clock: histories of update / clock-advance / observe run on a
//! single simulated thread under a mock `quanta` clock. (i) real `Recency` + `Registry` driven the
//! way an exporter does; (ii) the real Prometheus recorder built around the mock clock, observed
//! through `render()`.

use crate::framework::*;
use crate::oracles::promtext;
use crate::scenarios::c07;
use dsim::Rng;
use metrics::{CounterFn, GaugeFn, HistogramFn, Key, Label, Level, Metadata, Recorder};
use metrics_util::registry::{GenerationalAtomicStorage, Recency, Registry};
use metrics_util::MetricKindMask;
use serde::{Deserialize, Serialize};
use std::collections::BTreeMap;
use std::sync::atomic::Ordering;
use std::sync::{Arc, Mutex};
use std::time::Duration;

static MD: Metadata<'static> = Metadata::new("c12", Level::INFO, None);

#[derive(Clone, Debug, Serialize, Deserialize, PartialEq)]
pub enum Op {
    /// kind 0..3, key index, preserve = an update that leaves the value unchanged
    Update { kind: u8, key: usize, preserve: bool },
    /// advance the clock: 0 = timeout-1ns, 1 = timeout, 2 = timeout+1ns, 3 = small, 4 = 3*timeout
    Advance(u8, u32),
    Observe { kind: u8 },
    /// (prom_idle only) PrometheusHandle::run_upkeep — maintenance, not an observation
    Upkeep,
    /// (recency only) update keys 0..upto of one kind
    UpdateAll { kind: u8, upto: usize, preserve: bool },
    /// (recency only) a get-or-create whose closure panics before it touches the metric (caught):
    /// the metric exists afterwards if it did not before, un-updated; a shard lock the panic may
    /// have poisoned must not change what later observations do
    PanicTouch { kind: u8, key: usize },
}

#[derive(Clone, Debug, Serialize, Deserialize)]
pub struct Plan {
    pub timeout_ms: Option<u64>,
    pub mask: u8,
    pub nkeys: usize,
    pub ops: Vec<Op>,
    /// 0 = an observation checks the listed keys in key order; otherwise in a seeded permutation
    /// (exporters iterate a hash map, so every order is one a user can meet)
    #[serde(default)]
    pub order: u64,
}

fn mask_of(m: u8) -> MetricKindMask {
    let mut r = MetricKindMask::NONE;
    if m & 1 != 0 {
        r = r | MetricKindMask::COUNTER;
    }
    if m & 2 != 0 {
        r = r | MetricKindMask::GAUGE;
    }
    if m & 4 != 0 {
        r = r | MetricKindMask::HISTOGRAM;
    }
    r
}

fn key(i: usize) -> Key {
    match i {
        0 => Key::from_name("k"),
        1 => Key::from_parts("k", vec![Label::new("a", "1")]),
        2 => Key::from_name("other"),
        _ => Key::from_parts("w", vec![Label::new("i", i.to_string())]),
    }
}

fn advance_nanos(timeout_ms: Option<u64>, how: u8, small: u32) -> u64 {
    let t = timeout_ms.unwrap_or(10) * 1_000_000;
    match how {
        0 => t.saturating_sub(1),
        1 => t,
        2 => t + 1,
        3 => small as u64,
        _ => 3 * t,
    }
}

fn gen_ops(r: &mut Rng, nkeys: usize, nkinds: u64, n: u64) -> Vec<Op> {
    (0..n)
        .map(|_| match r.below(10) {
            0..=3 => {
                if r.chance(60) {
                    Op::PanicTouch { kind: r.below(nkinds) as u8, key: r.below(nkeys as u64) as usize }
                } else {
                    Op::Update { kind: r.below(nkinds) as u8, key: r.below(nkeys as u64) as usize, preserve: r.chance(400) }
                }
            }
            4..=6 => Op::Advance(r.below(5) as u8, r.range(1, 1000) as u32),
            _ => Op::Observe { kind: r.below(nkinds) as u8 },
        })
        .collect()
}

// ----------------------------------------------------------------------------------------------

#[derive(Clone, Debug, Default)]
struct MState {
    exists: bool,
    gen: u64,
    value: u64,
    entry: Option<(u64, u64)>, // (generation seen, time first seen)
}

pub struct C12Recency;

impl Scenario for C12Recency {
    type Plan = Plan;
    fn property(&self) -> &'static str {
        "C12"
    }
    fn name(&self) -> &'static str {
        "recency"
    }
    fn rule(&self) -> &'static str {
        "one run = one seeded history of update / clock-advance / observe operations on one simulated thread under a mock clock (advances of exactly the timeout and +/- 1 ns included); distinct = distinct hash of the full observation log; non-trivial = at least one observation happened"
    }
    fn plan(&self, r: &mut Rng, tier: Tier) -> Plan {
        let nkeys = r.range(1, 3) as usize;
        let n = r.range(3, if tier == Tier::Thorough { 30 } else { 16 });
        if r.chance(60) {
            // wide population of one kind: the recency table grows and is walked in varying order
            let nkeys = r.range(4, 31) as usize;
            let kind = r.below(3) as u8;
            let ops = (0..n)
                .map(|_| match r.below(10) {
                    0..=1 => Op::UpdateAll { kind, upto: r.range(1, nkeys as u64) as usize, preserve: r.chance(300) },
                    2..=3 => Op::Update { kind, key: r.below(nkeys as u64) as usize, preserve: r.chance(300) },
                    4..=6 => Op::Advance(r.below(5) as u8, r.range(1, 1000) as u32),
                    _ => Op::Observe { kind },
                })
                .collect();
            return Plan { timeout_ms: Some(r.range(1, 50)), mask: 7, nkeys, ops, order: r.next_u64() | 1 };
        }
        Plan { timeout_ms: if r.chance(120) { None } else { Some(r.range(1, 50)) }, mask: *r.pick(&[7u8, 7, 7, 1, 2, 4, 3, 5, 6, 0]), nkeys, ops: gen_ops(r, nkeys, 3, n), order: 0 }
    }
    fn execute(&self, plan: &Plan, sched: &SchedSpec) -> RunReport {
        let log: Arc<Mutex<Vec<String>>> = Arc::new(Mutex::new(vec![]));
        let bad: Arc<Mutex<Option<(String, String)>>> = Arc::new(Mutex::new(None));
        let p = plan.clone();
        let (l2, b2) = (log.clone(), bad.clone());
        let sim = simulate(sched, 100_000, move || {
            let (clock, mock) = quanta::Clock::mock();
            let registry: Registry<Key, GenerationalAtomicStorage> = Registry::new(GenerationalAtomicStorage::atomic());
            let recency: Recency<Key> = Recency::new(clock, mask_of(p.mask), p.timeout_ms.map(Duration::from_millis));
            let mut model: BTreeMap<(u8, usize), MState> = BTreeMap::new();
            let mut now: u64 = 0;
            let timeout = p.timeout_ms.map(|t| t * 1_000_000);
            let mut fail = |c: &str, d: String| {
                let mut b = b2.lock().unwrap();
                if b.is_none() {
                    *b = Some((c.to_string(), d));
                }
            };
            for (i, op) in p.ops.iter().enumerate() {
                dsim::point("c12.op");
                match op {
                    Op::Update { .. } | Op::UpdateAll { .. } => {
                      let ups: Vec<(u8, usize, bool)> = match op {
                          Op::Update { kind, key, preserve } => vec![(*kind, *key, *preserve)],
                          Op::UpdateAll { kind, upto, preserve } => (0..(*upto).min(p.nkeys)).map(|k| (*kind, k, *preserve)).collect(),
                          _ => unreachable!(),
                      };
                      for (kind, ki, preserve) in ups.iter().map(|u| (&u.0, &u.1, &u.2)) {
                        let k = key(*ki);
                        let st = model.entry((*kind, *ki)).or_default();
                        if !st.exists {
                            *st = MState { exists: true, gen: 0, value: 0, entry: st.entry };
                        }
                        st.gen += 1;
                        match kind {
                            0 => {
                                let d = if *preserve { 0 } else { 3 };
                                st.value += d;
                                registry.get_or_create_counter(&k, |c| CounterFn::increment(c, d));
                            }
                            1 => {
                                if !*preserve {
                                    st.value = i as u64 + 1;
                                }
                                let v = st.value as f64;
                                registry.get_or_create_gauge(&k, |g| GaugeFn::set(g, v));
                            }
                            _ => {
                                st.value += 1;
                                // (half of the histogram updates go through the bulk entry point)
                                if i % 2 == 0 {
                                    registry.get_or_create_histogram(&k, |h| HistogramFn::record(h, 1.0));
                                } else {
                                    registry.get_or_create_histogram(&k, |h| HistogramFn::record_many(h, 1.0, 1));
                                }
                            }
                        }
                      }
                    }
                    Op::Upkeep => {}
                    Op::PanicTouch { kind, key: ki } => {
                        struct TouchPanic;
                        let k = key(*ki);
                        let r = std::panic::catch_unwind(std::panic::AssertUnwindSafe(|| match kind {
                            0 => registry.get_or_create_counter(&k, |_| -> () { std::panic::resume_unwind(Box::new(TouchPanic)) }),
                            1 => registry.get_or_create_gauge(&k, |_| -> () { std::panic::resume_unwind(Box::new(TouchPanic)) }),
                            _ => registry.get_or_create_histogram(&k, |_| -> () { std::panic::resume_unwind(Box::new(TouchPanic)) }),
                        }));
                        if let Err(p) = r {
                            if !p.is::<TouchPanic>() {
                                std::panic::resume_unwind(p);
                            }
                        }
                        let st = model.entry((*kind, *ki)).or_default();
                        if !st.exists {
                            *st = MState { exists: true, gen: 0, value: 0, entry: st.entry };
                        }
                    }
                    Op::Advance(how, small) => {
                        let d = advance_nanos(p.timeout_ms, *how, *small);
                        mock.increment(d);
                        dsim::advance(d);
                        now += d;
                    }
                    Op::Observe { kind } => {
                        // what an exporter does: list handles, ask recency per key
                        let mut seen: Vec<(usize, bool, u64)> = vec![];
                        let covered = p.mask & (1 << kind) != 0;
                        match kind {
                            0 => {
                                let mut hs: Vec<_> = registry.get_counter_handles().into_iter().collect();
                                hs.sort_by(|a, b| a.0.cmp(&b.0));
                                if p.order != 0 {
                                    hs.sort_by_key(|h| crate::util::hash_str(&format!("{}:{:?}", p.order, h.0)));
                                }
                                for (k, h) in hs {
                                    let keep = recency.should_store_counter(&k, h.get_generation(), &registry);
                                    let ki = (0..p.nkeys.max(3)).find(|i| key(*i) == k).unwrap_or(99);
                                    seen.push((ki, keep, h.get_inner().load(Ordering::SeqCst)));
                                }
                            }
                            1 => {
                                let mut hs: Vec<_> = registry.get_gauge_handles().into_iter().collect();
                                hs.sort_by(|a, b| a.0.cmp(&b.0));
                                if p.order != 0 {
                                    hs.sort_by_key(|h| crate::util::hash_str(&format!("{}:{:?}", p.order, h.0)));
                                }
                                for (k, h) in hs {
                                    let keep = recency.should_store_gauge(&k, h.get_generation(), &registry);
                                    let ki = (0..p.nkeys.max(3)).find(|i| key(*i) == k).unwrap_or(99);
                                    seen.push((ki, keep, f64::from_bits(h.get_inner().load(Ordering::SeqCst)) as u64));
                                }
                            }
                            _ => {
                                let mut hs: Vec<_> = registry.get_histogram_handles().into_iter().collect();
                                hs.sort_by(|a, b| a.0.cmp(&b.0));
                                if p.order != 0 {
                                    hs.sort_by_key(|h| crate::util::hash_str(&format!("{}:{:?}", p.order, h.0)));
                                }
                                for (k, h) in hs {
                                    let keep = recency.should_store_histogram(&k, h.get_generation(), &registry);
                                    let ki = (0..p.nkeys.max(3)).find(|i| key(*i) == k).unwrap_or(99);
                                    let mut n = 0u64;
                                    h.get_inner().data_with(|s| n += s.len() as u64);
                                    seen.push((ki, keep, n));
                                }
                            }
                        }
                        l2.lock().unwrap().push(format!("op{} t={} observe kind {}: {:?}", i, now, kind, seen));
                        // model
                        for ki in 0..p.nkeys {
                            let st = match model.get_mut(&(*kind, ki)) {
                                Some(s) if s.exists => s,
                                _ => {
                                    if seen.iter().any(|s| s.0 == ki) {
                                        fail("observe-foreign-metric", format!("op {}: kind {} key {} listed but it does not exist", i, kind, ki));
                                    }
                                    continue;
                                }
                            };
                            let got = seen.iter().find(|s| s.0 == ki);
                            let got = match got {
                                Some(g) => g,
                                None => {
                                    fail("metric-vanished", format!("op {}: kind {} key {} exists but was not listed", i, kind, ki));
                                    continue;
                                }
                            };
                            let mut expect_keep = true;
                            if let (Some(t), true) = (timeout, covered) {
                                match st.entry {
                                    None => st.entry = Some((st.gen, now)),
                                    Some((g, seen_at)) => {
                                        if g == st.gen {
                                            if now - seen_at > t {
                                                expect_keep = false;
                                            }
                                        } else {
                                            st.entry = Some((st.gen, now));
                                        }
                                    }
                                }
                            }
                            if got.1 != expect_keep {
                                let (g, seen_at) = st.entry.unwrap_or((0, 0));
                                fail(
                                    if expect_keep { "dropped-too-early" } else { "kept-too-long" },
                                    format!(
                                        "op {} at t={}ns: kind {} key {} (generation {}, this generation first observed at t={}ns, timeout {:?}ns, kind covered={}) — should_store returned {} but the metric must be {}{}",
                                        i, now, kind, ki, g, seen_at, timeout, covered, got.1, if expect_keep { "kept" } else { "dropped" },
                                        if model_has_other_kind(&p, *kind, ki) { " sig:same-key-two-kinds" } else { "" }
                                    ),
                                );
                            }
                            if expect_keep && got.2 != st_value(&model, *kind, ki) {
                                fail("kept-value-wrong", format!("op {}: kind {} key {} kept with value {} expected {}", i, kind, ki, got.2, st_value(&model, *kind, ki)));
                            }
                            let st = model.get_mut(&(*kind, ki)).unwrap();
                            if !expect_keep {
                                *st = MState::default();
                            }
                            // registry contents agree with the verdict the code itself gave
                            let present = match kind {
                                0 => registry.get_counter(&key(ki)).is_some(),
                                1 => registry.get_gauge(&key(ki)).is_some(),
                                _ => registry.get_histogram(&key(ki)).is_some(),
                            };
                            if present != got.1 {
                                fail("registry-disagrees", format!("op {}: should_store returned {} but the registry {} the metric", i, got.1, if present { "still holds" } else { "no longer holds" }));
                            }
                        }
                    }
                }
            }
        });
        let mut rep = RunReport::ok(sim);
        let simr = rep.sim.as_ref().unwrap();
        let mut v = None;
        if !simr.panics.is_empty() {
            v = violation("panic", format!("{:?}", simr.panics));
        } else if let Some((c, d)) = bad.lock().unwrap().clone() {
            v = violation(&c, d);
        }
        let l = log.lock().unwrap();
        rep.observations = l.join("\n");
        rep.history_hash = crate::util::hash_str(&rep.observations);
        rep.count("observations", l.len() as u64);
        if let Some(s) = rep.sim.as_mut() {
            if !l.is_empty() {
                s.switches = s.switches.max(1);
            }
        }
        rep.violation = v;
        rep
    }
    fn shrink(&self, p: &Plan) -> Vec<Plan> {
        let mut out = vec![];
        for i in 0..p.ops.len() {
            let mut q = p.clone();
            q.ops.remove(i);
            out.push(q);
        }
        if p.mask != 7 {
            let mut q = p.clone();
            q.mask = 7;
            out.push(q);
        }
        out
    }
    fn real_components(&self) -> Vec<&'static str> {
        vec!["metrics_util::registry::{Recency, Registry, GenerationalAtomicStorage, Generational}", "MetricKindMask"]
    }
    fn stub_components(&self) -> Vec<&'static str> {
        vec!["quanta clock (mock driven by the history)", "the exporter loop around should_store_* (written in the harness the way the exporters do it)"]
    }
}

fn model_has_other_kind(p: &Plan, kind: u8, ki: usize) -> bool {
    p.ops.iter().any(|o| matches!(o, Op::Update { kind: k2, key: k, .. } if *k == ki && *k2 != kind))
}
fn st_value(model: &BTreeMap<(u8, usize), MState>, kind: u8, ki: usize) -> u64 {
    model.get(&(kind, ki)).map(|s| s.value).unwrap_or(0)
}

// ----------------------------------------------------------------------------------------------
// (ii) Prometheus exporter under a mock clock, observation = render()

#[derive(Clone, Debug, Serialize, Deserialize)]
pub struct PPlan {
    pub timeout_ms: Option<u64>,
    pub mask: u8,
    /// Update.key indexes c07::NAMES (0,1 counters; 2 gauge; 3,4 histograms); Observe = render
    pub ops: Vec<Op>,
    pub global_buckets: bool,
    /// 0 none, 1 [env=e], 2 [l=glob, env=e] (the second collides with the label of the labelled keys)
    #[serde(default)]
    pub global_labels: u8,
}

pub struct C12PromIdle;

impl Scenario for C12PromIdle {
    type Plan = PPlan;
    fn property(&self) -> &'static str {
        "C12"
    }
    fn name(&self) -> &'static str {
        "prom_idle"
    }
    fn rule(&self) -> &'static str {
        "one run = one seeded history of metric updates, mock-clock advances and render() calls against a Prometheus recorder with an idle timeout; distinct = distinct hash of the sequence of rendered family sets and values; non-trivial = at least one render happened"
    }
    fn plan(&self, r: &mut Rng, tier: Tier) -> PPlan {
        let n = r.range(3, if tier == Tier::Thorough { 24 } else { 14 });
        let ops = (0..n)
            .map(|_| match r.below(11) {
                0..=3 => {
                    let m = r.below(5) as usize;
                    Op::Update { kind: if m < 2 { 0 } else if m == 2 { 1 } else { 2 }, key: m, preserve: r.chance(400) }
                }
                4..=6 => Op::Advance(r.below(5) as u8, r.range(1, 1000) as u32),
                10 => Op::Upkeep,
                _ => Op::Observe { kind: 0 },
            })
            .collect();
        PPlan { timeout_ms: if r.chance(120) { None } else { Some(r.range(1, 50)) }, mask: *r.pick(&[7u8, 7, 7, 1, 2, 4, 3, 5, 6, 0]), ops, global_buckets: r.chance(300), global_labels: *r.pick(&[0u8, 0, 1, 2]) }
    }
    fn execute(&self, plan: &PPlan, sched: &SchedSpec) -> RunReport {
        let log: Arc<Mutex<Vec<String>>> = Arc::new(Mutex::new(vec![]));
        let bad: Arc<Mutex<Option<(String, String)>>> = Arc::new(Mutex::new(None));
        let p = plan.clone();
        let (l2, b2) = (log.clone(), bad.clone());
        let sim = simulate(sched, 200_000, move || {
            let (clock, mock) = quanta::Clock::mock();
            let gl: Vec<(String, String)> = match p.global_labels {
                0 => vec![],
                1 => vec![("env".to_string(), "e".to_string())],
                _ => vec![("l".to_string(), "glob".to_string()), ("env".to_string(), "e".to_string())],
            };
            let cfg = c07::Config { global_labels: gl, global_buckets: p.global_buckets, custom_quantiles: false, unit_suffix: false };
            let idle = p.timeout_ms.map(|t| (mask_of(p.mask), Duration::from_millis(t)));
            let (rec, handle) = c07::build(&cfg, clock.clone(), idle);
            let timeout = p.timeout_ms.map(|t| t * 1_000_000);
            let mut model: BTreeMap<usize, MState> = BTreeMap::new();
            let mut now = 0u64;
            let mut fail = |c: &str, d: String| {
                let mut b = b2.lock().unwrap();
                if b.is_none() {
                    *b = Some((c.to_string(), d));
                }
            };
            quanta::with_clock(&clock, || {
                for (i, op) in p.ops.iter().enumerate() {
                    dsim::point("c12p.op");
                    match op {
                        Op::Update { key: m, preserve, .. } => {
                            let st = model.entry(*m).or_default();
                            if !st.exists {
                                *st = MState { exists: true, gen: 0, value: 0, entry: st.entry };
                            }
                            st.gen += 1;
                            let k = c07::key_of(*m, i as u8);
                            match m {
                                0 | 1 => {
                                    let d = if *preserve { 0 } else { 2 };
                                    st.value += d;
                                    rec.register_counter(&k, &MD).increment(d);
                                }
                                2 => {
                                    if !*preserve {
                                        st.value = i as u64 + 1;
                                    }
                                    rec.register_gauge(&k, &MD).set(st.value as f64);
                                }
                                _ => {
                                    st.value += 1;
                                    if i % 2 == 0 {
                                        rec.register_histogram(&k, &MD).record(1.0);
                                    } else {
                                        rec.register_histogram(&k, &MD).record_many(1.0, 1);
                                    }
                                }
                            }
                        }
                        Op::Advance(how, small) => {
                            let d = advance_nanos(p.timeout_ms, *how, *small);
                            mock.increment(d);
                            dsim::advance(d);
                            now += d;
                        }
                        // maintenance between scrapes: folds histogram samples, is not an observation
                        Op::Upkeep => handle.run_upkeep(),
                        Op::UpdateAll { .. } | Op::PanicTouch { .. } => {}
                        Op::Observe { .. } => {
                            let text = handle.render();
                            let fams = match promtext::parse(&text) {
                                Ok(f) => f,
                                Err(e) => {
                                    fail("render-malformed", e);
                                    continue;
                                }
                            };
                            let mut line = format!("op{} t={} render:", i, now);
                            for m in 0..5usize {
                                let fam = fams.iter().find(|f| f.name == c07::NAMES[m]);
                                let kind_bit = if m < 2 { 1 } else if m == 2 { 2 } else { 4 };
                                let covered = p.mask & kind_bit != 0;
                                let st = model.entry(m).or_default();
                                if !st.exists {
                                    if fam.is_some() {
                                        fail("render-foreign-metric", format!("op {}: {} rendered but does not exist", i, c07::NAMES[m]));
                                    }
                                    continue;
                                }
                                let mut expect_keep = true;
                                if let (Some(t), true) = (timeout, covered) {
                                    match st.entry {
                                        None => st.entry = Some((st.gen, now)),
                                        Some((g, seen_at)) => {
                                            if g == st.gen {
                                                if now - seen_at > t {
                                                    expect_keep = false;
                                                }
                                            } else {
                                                st.entry = Some((st.gen, now));
                                            }
                                        }
                                    }
                                }
                                line.push_str(&format!(" {}={}", c07::NAMES[m], fam.is_some()));
                                if fam.is_some() != expect_keep {
                                    let (g, seen_at) = st.entry.unwrap_or((0, 0));
                                    fail(
                                        if expect_keep { "dropped-too-early" } else { "kept-too-long" },
                                        format!("op {} at t={}ns: {} (generation {}, first observed at t={}ns, timeout {:?}ns, covered={}) is {} in the output but must be {}", i, now, c07::NAMES[m], g, seen_at, timeout, covered, if fam.is_some() { "present" } else { "absent" }, if expect_keep { "kept" } else { "dropped" }),
                                    );
                                }
                                if let (Some(f), true) = (fam, expect_keep) {
                                    match c07::series_of(&cfg, f, m) {
                                        Ok(s) => {
                                            let got = if m <= 2 { s.value.map(|v| v as u64) } else { s.count };
                                            if got != Some(st.value) {
                                                fail("kept-value-wrong", format!("op {}: {} shows {:?}, expected its full value {} (a dropped metric that is emitted again must restart from zero; a kept one keeps everything)", i, c07::NAMES[m], got, st.value));
                                            }
                                            line.push_str(&format!("({:?})", got));
                                        }
                                        Err(e) => fail("render-labels", e),
                                    }
                                }
                                if !expect_keep {
                                    *st = MState::default();
                                }
                            }
                            l2.lock().unwrap().push(line);
                        }
                    }
                }
            });
        });
        let mut rep = RunReport::ok(sim);
        let simr = rep.sim.as_ref().unwrap();
        let mut v = None;
        if !simr.panics.is_empty() {
            v = violation("panic", format!("{:?}", simr.panics));
        } else if let Some((c, d)) = bad.lock().unwrap().clone() {
            v = violation(&c, d);
        }
        let l = log.lock().unwrap();
        rep.observations = l.join("\n");
        rep.history_hash = crate::util::hash_str(&rep.observations);
        rep.count("renders", l.len() as u64);
        if let Some(s) = rep.sim.as_mut() {
            if !l.is_empty() {
                s.switches = s.switches.max(1);
            }
        }
        rep.violation = v;
        rep
    }
    fn shrink(&self, p: &PPlan) -> Vec<PPlan> {
        let mut out = vec![];
        for i in 0..p.ops.len() {
            let mut q = p.clone();
            q.ops.remove(i);
            out.push(q);
        }
        if p.global_buckets {
            let mut q = p.clone();
            q.global_buckets = false;
            out.push(q);
        }
        if p.global_labels > 0 {
            let mut q = p.clone();
            q.global_labels -= 1;
            out.push(q);
        }
        out
    }
    fn real_components(&self) -> Vec<&'static str> {
        vec!["PrometheusBuilder::idle_timeout + build_with_clock", "PrometheusRecorder / PrometheusHandle::render (get_recent_metrics, distribution deletion)", "Recency, Registry, Generational storage"]
    }
    fn stub_components(&self) -> Vec<&'static str> {
        vec!["quanta clock (mock; also installed as the thread's clock override so Instant::now() in record/render reads it)"]
    }
}

// ----------------------------------------------------------------------------------------------
// (iii) an updater thread racing the observing (exporter) thread on one counter: every atomic step
// of `Generational` (value write, generation bump), of the registry shard lock and of the recency
// table is a scheduling point; the observer owns the mock clock.

#[derive(Clone, Debug, Serialize, Deserialize)]
pub struct MtPlan {
    pub timeout_ms: u64,
    /// the updater's increments; update i adds 2^i, so that a reported value names exactly the
    /// updates it contains (the stored numbers only say how many updates there are)
    pub updates: Vec<u64>,
    /// before each observation the observer advances the clock: 0 = 1 ms, 1 = timeout + 1 ns, 2 = 3 x timeout
    pub observes: Vec<u8>,
    /// scheduling points the updater idles before it starts
    pub delay: u32,
    /// observations made by a second observing thread (it does not move the clock): two scrapes /
    /// an upkeep pass overlapping each other
    #[serde(default)]
    pub second_observer: u32,
    /// the updater's later updates wait for this many scheduling points each (lets expiries happen
    /// between updates, so that the series is re-created)
    #[serde(default)]
    pub update_gap: u32,
}

#[derive(Clone, Debug)]
struct MtObs {
    t: u64,
    /// clock reading when the observation returned (the other observer may have moved the clock
    /// while this one was in progress)
    t_end: u64,
    inv: u64,
    ret: u64,
    listed: bool,
    keep: bool,
    value: u64,
}

pub struct C12RecencyMt;

impl Scenario for C12RecencyMt {
    type Plan = MtPlan;
    fn property(&self) -> &'static str {
        "C12"
    }
    fn name(&self) -> &'static str {
        "recency_mt"
    }
    fn horizon(&self) -> u64 {
        300
    }
    fn plan(&self, r: &mut Rng, _tier: Tier) -> MtPlan {
        MtPlan {
            timeout_ms: r.range(1, 50),
            updates: (0..r.range(1, 4)).map(|_| r.range(1, 3)).collect(),
            observes: (0..r.range(2, 5)).map(|_| *r.pick(&[0u8, 1, 1, 2])).collect(),
            delay: r.below(6) as u32,
            second_observer: if r.chance(400) { r.range(1, 4) as u32 } else { 0 },
            update_gap: *r.pick(&[0u32, 0, 20, 60, 150]),
        }
    }
    fn execute(&self, plan: &MtPlan, sched: &SchedSpec) -> RunReport {
        let ups: Arc<Mutex<Vec<(u64, u64, u64)>>> = Arc::new(Mutex::new(vec![])); // (inv, ret, delta)
        let obs: Arc<Mutex<Vec<MtObs>>> = Arc::new(Mutex::new(vec![]));
        let p = plan.clone();
        let (u2, o2) = (ups.clone(), obs.clone());
        let sim = simulate(sched, 100_000, move || {
            let (clock, mock) = quanta::Clock::mock();
            let registry: Arc<Registry<Key, GenerationalAtomicStorage>> = Arc::new(Registry::new(GenerationalAtomicStorage::atomic()));
            let recency: Arc<Recency<Key>> = Arc::new(Recency::new(clock, MetricKindMask::ALL, Some(Duration::from_millis(p.timeout_ms))));
            let k = key(0);
            let (reg_u, k_u, updates, delay, gap) = (registry.clone(), k.clone(), p.updates.clone(), p.delay, p.update_gap);
            let updater = dsim::spawn("updater", move || {
                for _ in 0..delay {
                    dsim::point("c12mt.idle");
                }
                for (ui, _) in updates.into_iter().enumerate() {
                    let d = 1u64 << ui;
                    if ui > 0 {
                        for _ in 0..gap {
                            dsim::point("c12mt.gap");
                        }
                    }
                    dsim::point("c12mt.update");
                    let inv = dsim::step();
                    reg_u.get_or_create_counter(&k_u, |c| CounterFn::increment(c, d));
                    let ret = dsim::step();
                    u2.lock().unwrap().push((inv, ret, d));
                }
            });
            let t_ns = p.timeout_ms * 1_000_000;
            let now_shared = Arc::new(std::sync::atomic::AtomicU64::new(0));
            let second = if p.second_observer > 0 {
                let (registry, recency, k, o2, now_shared, n) = (registry.clone(), recency.clone(), k.clone(), o2.clone(), now_shared.clone(), p.second_observer);
                Some(dsim::spawn("observer2", move || {
                    for _ in 0..n {
                        dsim::point("c12mt.observe2");
                        let inv = dsim::step();
                        let mut o = MtObs { t: now_shared.load(Ordering::SeqCst), t_end: 0, inv, ret: 0, listed: false, keep: false, value: 0 };
                        for (hk, h) in registry.get_counter_handles() {
                            if hk == k {
                                o.listed = true;
                                o.keep = recency.should_store_counter(&hk, h.get_generation(), &registry);
                                o.value = h.get_inner().load(Ordering::SeqCst);
                            }
                        }
                        o.ret = dsim::step();
                        o.t_end = now_shared.load(Ordering::SeqCst);
                        o2.lock().unwrap().push(o);
                    }
                }))
            } else {
                None
            };
            let mut now = 0u64;
            for a in &p.observes {
                dsim::point("c12mt.observe");
                let d = match a {
                    0 => 1_000_000,
                    1 => t_ns + 1,
                    _ => 3 * t_ns,
                };
                mock.increment(d);
                dsim::advance(d);
                now += d;
                now_shared.store(now, Ordering::SeqCst);
                let inv = dsim::step();
                let mut o = MtObs { t: now, t_end: now, inv, ret: 0, listed: false, keep: false, value: 0 };
                for (hk, h) in registry.get_counter_handles() {
                    if hk == k {
                        o.listed = true;
                        o.keep = recency.should_store_counter(&hk, h.get_generation(), &registry);
                        o.value = h.get_inner().load(Ordering::SeqCst);
                    }
                }
                o.ret = dsim::step();
                o2.lock().unwrap().push(o);
            }
            updater.join();
            if let Some(h) = second {
                h.join();
            }
            // closing observation at quiescence (the clock stays where it is)
            let inv = dsim::step();
            let mut o = MtObs { t: now, t_end: now, inv, ret: 0, listed: false, keep: false, value: 0 };
            for (hk, h) in registry.get_counter_handles() {
                if hk == k {
                    o.listed = true;
                    o.keep = recency.should_store_counter(&hk, h.get_generation(), &registry);
                    o.value = h.get_inner().load(Ordering::SeqCst);
                }
            }
            o.ret = dsim::step();
            o2.lock().unwrap().push(o);
        });
        let mut rep = RunReport::ok(sim);
        let simr = rep.sim.as_ref().unwrap();
        let ups = ups.lock().unwrap().clone();
        let mut obs = obs.lock().unwrap().clone();
        obs.sort_by_key(|o| o.inv);
        let t_ns = plan.timeout_ms * 1_000_000;
        // value rules hold for the first life of the series only (after a drop it restarts from
        // zero at a point the history does not pin down); the timing rules hold throughout
        let first_drop: Option<u64> = obs.iter().filter(|o| o.listed && !o.keep).map(|o| o.inv).min();
        let mut viol_at = 0u64;
        let mut v = None;
        if !simr.panics.is_empty() {
            v = violation("panic", format!("{:?}", simr.panics));
        } else if simr.end == dsim::End::Completed {
            for (i, o) in obs.iter().enumerate() {
                if !o.listed {
                    continue;
                }
                viol_at = o.ret;
                let done_before: u64 = ups.iter().filter(|u| u.1 < o.inv).map(|u| u.2).sum();
                let begun_before: u64 = ups.iter().filter(|u| u.0 < o.ret).map(|u| u.2).sum();
                // (an observation that overlaps the first drop may still show the series from the handle
                // it took before: it is judged only when it returned before that drop was invoked)
                let first_life = if o.keep { first_drop.map(|d| o.ret < d).unwrap_or(true) } else { first_drop == Some(o.inv) };
                // "earlier" observations: those that had returned before this one was invoked
                let earlier: Vec<&MtObs> = obs.iter().filter(|p| p.listed && p.ret < o.inv).collect();
                if o.keep {
                    if !first_life {
                        continue;
                    }
                    if (o.value & done_before) != done_before || (o.value & !begun_before) != 0 {
                        v = violation("kept-value-wrong", format!("observation {} (steps {}..{}) reports {} but increments completed before it sum to {} and those begun before it ended to {}", i, o.inv, o.ret, o.value, done_before, begun_before));
                        break;
                    }
                    // must it have been dropped? some earlier observation, more than the timeout
                    // ago, already began after the last update had completed
                    if let Some(j) = earlier.iter().find(|j| o.t > j.t_end && o.t - j.t_end > t_ns && ups.iter().all(|u| u.1 < j.inv) && ups.len() == plan.updates.len()) {
                        v = violation("kept-too-long", format!("observation {} at t={}ns keeps the counter although an observation at t={}ns (steps {}..{}, more than the timeout {}ns earlier) already began after the last update had completed", i, o.t, j.t, j.inv, j.ret, t_ns));
                        break;
                    }
                } else {
                    // dropped: legal only when it was unchanged since an observation made more than
                    // the timeout ago
                    // (any other observation that began before this one ended may have established the record)
                    let prev: Vec<&MtObs> = obs.iter().filter(|p| p.listed && p.inv < o.ret && p.inv != o.inv).collect();
                    if !prev.iter().any(|p| o.t_end - p.t > t_ns) {
                        v = violation("dropped-too-early", format!("observation {} at t={}..{}ns drops the counter but no earlier observation is more than the timeout ({}ns) old: {:?}", i, o.t, o.t_end, t_ns, prev.iter().map(|p| p.t).collect::<Vec<_>>()));
                        break;
                    }
                    if let Some(last) = earlier.iter().max_by_key(|p| p.ret) {
                        if let Some(u) = ups.iter().find(|u| u.0 > last.ret && u.1 < o.inv) {
                            v = violation("dropped-too-early", format!("observation {} (steps {}..{}) drops the counter although an update (steps {}..{}) was made entirely after the previous observation (steps {}..{})", i, o.inv, o.ret, u.0, u.1, last.inv, last.ret));
                            break;
                        }
                    }
                    // nothing that completed before the dropping observation may go unreported
                    let reported = prev.iter().fold(0u64, |a, p| a | p.value);
                    if first_life && (reported & done_before) != done_before {
                        v = violation("dropped-with-unreported-update", format!("observation {} (steps {}..{}) drops the counter; increments completed before it began sum to {} but the most any earlier observation reported is {} (updates {:?}, observations {:?})", i, o.inv, o.ret, done_before, reported, ups, obs.iter().map(|x| (x.t, x.inv, x.ret, x.keep, x.value)).collect::<Vec<_>>()));
                        break;
                    }
                }
            }
        }
        // Structural signatures of the known finding (Recency deletes by key without re-checking the
        // generation, and its record is not tied to the storage instance):
        //  - an update overlapping the observation that drops the series is deleted with it;
        //  - observers that overlap each other act on stale handles: one re-inserts a record for a
        //    series the other has just expired (a re-created series, whose generations restart, is
        //    then judged idle against it), or writes an older generation back over a newer one (the
        //    series is then kept one round too long).
        let drops: Vec<&MtObs> = obs.iter().filter(|o| o.listed && !o.keep).collect();
        let sig_for = |u: Option<&(u64, u64, u64)>, at: u64| -> String {
            let mut sg = String::new();
            if let Some(u) = u {
                if drops.iter().any(|d| u.0 < d.ret && u.1 > d.inv) {
                    sg.push_str(" sig:update-overlaps-dropping-observation");
                }
            }
            if obs.iter().any(|a| a.listed && a.inv < at && obs.iter().any(|b| b.listed && b.inv != a.inv && b.inv < at && b.inv < a.ret && b.ret > a.inv)) {
                sg.push_str(" sig:overlapping-observers");
            }
            sg
        };
        if let Some(vv) = v.as_mut() {
            if ["dropped-too-early", "kept-too-long", "kept-value-wrong", "dropped-with-unreported-update"].contains(&vv.class.as_str()) {
                // (the violating observation is the last one the loop above looked at)
                let at = viol_at;
                vv.detail.push_str(&sig_for(None, at));
            }
        }
        // every update is reported: once an observation has begun after an update returned, some
        // observation must have shown a value containing that update's bit
        if v.is_none() && simr.end == dsim::End::Completed && simr.panics.is_empty() {
            for (ui, u) in ups.iter().enumerate() {
                let bit = u.2;
                let later_obs = obs.iter().any(|o| o.inv > u.1);
                let shown = obs.iter().any(|o| o.listed && o.ret > u.0 && o.value & bit != 0);
                if later_obs && !shown {
                    v = violation("update-never-reported", format!("update {} (steps {}..{}, adds {}) never appeared in any observed value although observations were made after it returned (updates {:?}; observations (t, invoked, returned, listed, kept, value): {:?}){}", ui, u.0, u.1, bit, ups, obs.iter().map(|x| (x.t, x.inv, x.ret, x.listed, x.keep, x.value)).collect::<Vec<_>>(), sig_for(Some(u), u.0)));
                    break;
                }
            }
        }
        rep.observations = format!("ups={:?} obs={:?}", ups, obs);
        rep.history_hash = crate::util::hash_str(&rep.observations);
        rep.count("updates", ups.len() as u64);
        rep.count("observations", obs.len() as u64);
        rep.count("drops", obs.iter().filter(|o| o.listed && !o.keep).count() as u64);
        rep.violation = v;
        rep
    }
    fn shrink(&self, p: &MtPlan) -> Vec<MtPlan> {
        let mut out = vec![];
        for i in 0..p.updates.len() {
            if p.updates.len() > 1 {
                let mut q = p.clone();
                q.updates.remove(i);
                out.push(q);
            }
        }
        for i in 0..p.observes.len() {
            if p.observes.len() > 1 {
                let mut q = p.clone();
                q.observes.remove(i);
                out.push(q);
            }
        }
        if p.delay > 0 {
            out.push(MtPlan { delay: p.delay - 1, ..p.clone() });
        }
        if p.second_observer > 0 {
            out.push(MtPlan { second_observer: p.second_observer - 1, ..p.clone() });
        }
        if p.update_gap > 0 {
            out.push(MtPlan { update_gap: p.update_gap / 2, ..p.clone() });
        }
        out
    }
    fn real_components(&self) -> Vec<&'static str> {
        vec!["metrics_util::registry::{Registry, GenerationalAtomicStorage, Generational (value write + generation bump), Recency::should_store_counter}"]
    }
    fn stub_components(&self) -> Vec<&'static str> {
        vec!["thread scheduler (dsim)", "quanta clock (mock, moved by the observing thread)", "the exporter loop (list handles, ask recency per key, read the value) is written in the harness the way the exporters do it"]
    }
}
