//! C15 — histogram buckets and summary windows mean what Prometheus says they mean.
//! Single simulated thread on virtual time; real `Histogram`, `Distribution(Builder)`,
//! `RollingSummary` and the Prometheus recorder under a mock clock (installed as the thread's
//! clock override, so record() and render() read it).

use crate::framework::*;
use crate::oracles::promtext;
use dsim::Rng;
use metrics::{Key, Level, Metadata, Recorder};
use metrics_exporter_prometheus::{Matcher, PrometheusBuilder};
use metrics_util::storage::Histogram;
use serde::{Deserialize, Serialize};
use std::num::NonZeroU32;
use std::sync::{Arc, Mutex};
use std::time::Duration;

static MD: Metadata<'static> = Metadata::new("c15", Level::INFO, None);

const NAMES: [&str; 5] = ["lat", "lat_db", "db_lat", "a.b", "other"];
fn sanitized(i: usize) -> &'static str {
    ["lat", "lat_db", "db_lat", "a_b", "other"][i]
}

/// (matcher kind 0 full /1 prefix /2 suffix, pattern, bounds)
const MATCHERS: [(u8, &str, &[f64]); 5] = [(0, "lat", &[1.0, 10.0]), (1, "lat", &[2.0, 20.0]), (2, "lat", &[3.0, 30.0]), (0, "a.b", &[4.0]), (1, "db", &[5.0, 50.0, 500.0])];
const GLOBAL: [f64; 2] = [6.0, 60.0];

#[derive(Clone, Debug, Serialize, Deserialize, PartialEq)]
pub enum Op {
    /// metric index, value selector
    Rec(usize, i32),
    /// special values for histogram-typed metrics: 0 NaN, 1 +inf, 2 -inf, 3 exactly a bound
    RecSpecial(usize, i32),
    /// advance: 0 = bucket-1ns, 1 = bucket, 2 = bucket+1ns, 3 = window-1ns, 4 = window, 5 = window+1ns, 6 = small
    Advance(u8, u32),
    Render,
    Upkeep,
}

#[derive(Clone, Debug, Serialize, Deserialize)]
pub struct Plan {
    pub matchers: Vec<usize>,
    pub global_buckets: bool,
    pub bucket_count: u32,
    pub bucket_ms: u64,
    pub ops: Vec<Op>,
    /// the process-wide "recent" time of quanta was published once (at 1 ns) and is never
    /// refreshed: an application that called `quanta::set_recent` / stopped its upkeep thread
    #[serde(default)]
    pub stale_recent: bool,
}

/// puts quanta's process-wide recent time back to "not maintained" when the run ends
struct RecentReset(quanta::Instant);
impl Drop for RecentReset {
    fn drop(&mut self) {
        quanta::set_recent(self.0);
    }
}

fn expected_bounds(plan: &Plan, m: usize) -> Option<Vec<f64>> {
    // Full < Prefix < Suffix, first match wins; then global
    let name = sanitized(m);
    let mut cands: Vec<(u8, String, &[f64])> = plan
        .matchers
        .iter()
        .map(|i| {
            let (k, p, b) = MATCHERS[*i];
            (k, p.replace('.', "_"), b)
        })
        .collect();
    cands.sort_by(|a, b| (a.0, &a.1).cmp(&(b.0, &b.1)));
    for (k, p, b) in cands {
        let hit = match k {
            0 => name == p,
            1 => name.starts_with(&p),
            _ => name.ends_with(&p),
        };
        if hit {
            return Some(b.to_vec());
        }
    }
    if plan.global_buckets {
        return Some(GLOBAL.to_vec());
    }
    None
}

pub struct C15Windows;

impl Scenario for C15Windows {
    type Plan = Plan;
    fn property(&self) -> &'static str {
        "C15"
    }
    fn name(&self) -> &'static str {
        "windows"
    }
    fn rule(&self) -> &'static str {
        "one run = one seeded history of sample / clock-advance / render operations on one simulated thread under a mock clock, with a seeded matcher set, bucket count and bucket duration; distinct = distinct hash of the sequence of rendered values; non-trivial = at least one render with at least one sample"
    }
    fn plan(&self, r: &mut Rng, tier: Tier) -> Plan {
        let mut matchers = vec![];
        for i in 0..MATCHERS.len() {
            if r.chance(450) {
                matchers.push(i);
            }
        }
        let n = r.range(4, if tier == Tier::Thorough { 40 } else { 20 });
        let ops = (0..n)
            .map(|_| match r.below(12) {
                0..=5 => Op::Rec(r.below(5) as usize, r.below(70) as i32 - 5),
                6 => Op::RecSpecial(r.below(5) as usize, r.below(4) as i32),
                7..=8 => Op::Advance(r.below(7) as u8, r.range(1, 100_000) as u32),
                9 => Op::Upkeep,
                _ => Op::Render,
            })
            .collect();
        if r.chance(40) {
            // long windows: more than 64 buckets, one sample per bucket slot over more than a whole
            // window, then renders — every sample still inside the window counts
            let bucket_count = *r.pick(&[65u32, 100, 130]);
            let mut ops = vec![];
            for i in 0..(bucket_count + r.range(0, 10) as u32) {
                ops.push(Op::Rec(4, i as i32));
                ops.push(Op::Advance(1, 1));
                if r.chance(20) {
                    ops.push(Op::Render);
                }
            }
            ops.push(Op::Render);
            return Plan { matchers: vec![], global_buckets: false, bucket_count, bucket_ms: *r.pick(&[1u64, 1000]), ops, stale_recent: false };
        }
        Plan { matchers, global_buckets: r.chance(300), bucket_count: r.range(1, 5) as u32, bucket_ms: *r.pick(&[1u64, 7, 1000, 20_000]), ops, stale_recent: r.chance(50) }
    }
    fn execute(&self, plan: &Plan, sched: &SchedSpec) -> RunReport {
        let log: Arc<Mutex<Vec<String>>> = Arc::new(Mutex::new(vec![]));
        let bad: Arc<Mutex<Option<(String, String)>>> = Arc::new(Mutex::new(None));
        let p = plan.clone();
        let (l2, b2) = (log.clone(), bad.clone());
        let sim = simulate(sched, 300_000, move || {
            let (clock, mock) = quanta::Clock::mock();
            let mut b = PrometheusBuilder::new();
            for i in &p.matchers {
                let (k, pat, bounds) = MATCHERS[*i];
                let m = match k {
                    0 => Matcher::Full(pat.to_string()),
                    1 => Matcher::Prefix(pat.to_string()),
                    _ => Matcher::Suffix(pat.to_string()),
                };
                b = b.set_buckets_for_metric(m, bounds).unwrap();
            }
            if p.global_buckets {
                b = b.set_buckets(&GLOBAL).unwrap();
            }
            b = b.set_quantiles(&[0.0, 0.5, 0.9, 1.0]).unwrap();
            b = b.set_bucket_count(NonZeroU32::new(p.bucket_count).unwrap());
            b = b.set_bucket_duration(Duration::from_millis(p.bucket_ms)).unwrap();
            let rec = b.__verif_build_with_clock(clock.clone());
            let handle = rec.handle();
            let d = p.bucket_ms * 1_000_000;
            let w = d * p.bucket_count as u64;
            let mut now = 0u64;
            // model: per metric the list of (timestamp, value)
            let mut samples: Vec<Vec<(u64, f64)>> = vec![vec![]; 5];
            // direct Histogram: one sample at a time vs batches
            let direct_bounds = [1.0, 2.5, 10.0, 30.0];
            let mut single = Histogram::new(&direct_bounds).unwrap();
            let mut batched = Histogram::new(&direct_bounds).unwrap();
            // a third one is fed batches whose iterator sometimes panics part-way (caught): every
            // sample is 0.5, below every bound, so each bucket must always equal the total count
            let mut interrupted = Histogram::new(&[1.0, 2.0, 4.0]).unwrap();
            let mut renders = 0u32;
            let mut pending: Vec<f64> = vec![];
            let mut prev_counts: std::collections::BTreeMap<(usize, String), u64> = Default::default();
            let mut fail = |c: &str, dd: String| {
                let mut bb = b2.lock().unwrap();
                if bb.is_none() {
                    *bb = Some((c.to_string(), dd));
                }
            };
            quanta::with_clock(&clock, || {
                let _reset = RecentReset(quanta::Instant::now());
                if p.stale_recent {
                    mock.increment(1);
                    now += 1;
                    quanta::set_recent(quanta::Instant::now());
                }
                for (i, op) in p.ops.iter().enumerate() {
                    dsim::point("c15.op");
                    match op {
                        Op::Rec(m, v) | Op::RecSpecial(m, v) => {
                            let is_special = matches!(op, Op::RecSpecial(..));
                            let hist_typed = expected_bounds(&p, *m).is_some();
                            let value: f64 = if is_special {
                                if !hist_typed {
                                    // summaries get finite values only; use zero / a negative instead
                                    [0.0, -3.0, 0.0, -1.0][*v as usize % 4]
                                } else {
                                    match *v % 4 {
                                        0 => f64::NAN,
                                        1 => f64::INFINITY,
                                        2 => f64::NEG_INFINITY,
                                        _ => expected_bounds(&p, *m).unwrap()[0],
                                    }
                                }
                            } else {
                                // disjoint value ranges per window epoch so that influence of
                                // expired samples is visible in summary quantiles
                                let epoch = if w > 0 { (now / w) % 5 } else { 0 };
                                if hist_typed {
                                    *v as f64
                                } else {
                                    1000.0 * (epoch as f64 + 1.0) + *v as f64
                                }
                            };
                            rec.register_histogram(&Key::from_name(NAMES[*m]), &MD).record(value);
                            samples[*m].push((now, value));
                            single.record(value);
                            pending.push(value);
                            if pending.len() >= 3 {
                                batched.record_many(pending.iter());
                                pending.clear();
                            }
                        }
                        Op::Advance(how, small) => {
                            let dn = match how {
                                0 => d - 1,
                                1 => d,
                                2 => d + 1,
                                3 => w - 1,
                                4 => w,
                                5 => w + 1,
                                _ => *small as u64,
                            };
                            mock.increment(dn);
                            dsim::advance(dn);
                            now += dn;
                        }
                        Op::Upkeep => handle.run_upkeep(),
                        Op::Render => {
                            // direct histogram: batching makes no difference
                            batched.record_many(pending.iter());
                            pending.clear();
                            renders += 1;
                            {
                                struct IterPanic;
                                let boom = renders % 2 == 0;
                                let vals = [0.5f64, 0.5, 0.5];
                                let r = std::panic::catch_unwind(std::panic::AssertUnwindSafe(|| {
                                    interrupted.record_many(vals.iter().enumerate().map(|(k, v)| {
                                        if boom && k == 2 {
                                            std::panic::resume_unwind(Box::new(IterPanic));
                                        }
                                        v
                                    }));
                                }));
                                if let Err(p) = r {
                                    if !p.is::<IterPanic>() {
                                        std::panic::resume_unwind(p);
                                    }
                                }
                                let c = interrupted.count();
                                let b = interrupted.buckets();
                                if b.iter().any(|(_, n)| *n != c) || (interrupted.sum() - 0.5 * c as f64).abs() > 1e-9 {
                                    fail("batch-interrupted-inconsistent", format!("op {}: after a record_many whose iterator {} the histogram of 0.5-valued samples has count {} sum {} buckets {:?} (every bucket must equal the count)", i, if boom { "panicked after two samples" } else { "completed" }, c, interrupted.sum(), b));
                                }
                            }
                            if single.buckets() != batched.buckets() || single.count() != batched.count() || (single.sum() != batched.sum() && !(single.sum().is_nan() && batched.sum().is_nan())) {
                                fail("batch-vs-single", format!("op {}: Histogram fed one sample at a time {:?}/{} differs from the same samples in batches {:?}/{}", i, single.buckets(), single.count(), batched.buckets(), batched.count()));
                            }
                            let text = handle.render();
                            let fams = match promtext::parse(&text) {
                                Ok(f) => f,
                                Err(e) => {
                                    fail("render-malformed", e);
                                    continue;
                                }
                            };
                            let mut line = format!("op{} t={}:", i, now);
                            for m in 0..5usize {
                                let fam = match fams.iter().find(|f| f.name == sanitized(m)) {
                                    Some(f) => f,
                                    None => {
                                        if !samples[m].is_empty() {
                                            fail("render-missing-metric", format!("op {}: {} has samples but is not rendered", i, NAMES[m]));
                                        }
                                        continue;
                                    }
                                };
                                let all: Vec<f64> = samples[m].iter().map(|s| s.1).collect();
                                let want = expected_bounds(&p, m);
                                let want_type = if want.is_some() { "histogram" } else { "summary" };
                                if fam.typ.as_deref() != Some(want_type) {
                                    fail("distribution-type", format!("{} is exposed as {:?}; with matchers {:?} (global buckets: {}) it must be a {}", NAMES[m], fam.typ, p.matchers, p.global_buckets, want_type));
                                    continue;
                                }
                                let get = |suffix: &str, label: Option<(&str, &str)>| -> Option<f64> {
                                    fam.samples.iter().find(|s| s.name == format!("{}{}", sanitized(m), suffix) && label.map(|(k, v)| s.labels.iter().any(|l| l.0 == k && l.1 == v)).unwrap_or(true)).map(|s| match s.value.as_str() {
                                        "+Inf" | "inf" => f64::INFINITY,
                                        "-Inf" | "-inf" => f64::NEG_INFINITY,
                                        "NaN" => f64::NAN,
                                        x => x.parse().unwrap_or(f64::NAN),
                                    })
                                };
                                let count = get("_count", None).unwrap_or(-1.0);
                                let sum = get("_sum", None).unwrap_or(f64::NAN);
                                if count != all.len() as f64 {
                                    fail("count-covers-all", format!("op {}: {}_count = {} but {} samples were recorded", i, NAMES[m], count, all.len()));
                                }
                                let want_sum: f64 = all.iter().sum();
                                if !(sum == want_sum || (sum.is_nan() && want_sum.is_nan())) {
                                    fail("sum-covers-all", format!("op {}: {}_sum = {} but the samples sum to {}", i, NAMES[m], sum, want_sum));
                                }
                                line.push_str(&format!(" {}[{} n={}", NAMES[m], want_type, count));
                                if let Some(bounds) = want {
                                    let mut last = 0.0;
                                    let bucket_lines: Vec<&promtext::Sample> = fam.samples.iter().filter(|s| s.name.ends_with("_bucket")).collect();
                                    if bucket_lines.len() != bounds.len() + 1 {
                                        fail("bucket-set", format!("{} shows {} bucket lines; the applicable bounds are {:?} (+Inf)", NAMES[m], bucket_lines.len(), bounds));
                                        continue;
                                    }
                                    for (bi, b) in bounds.iter().enumerate() {
                                        let le = bucket_lines[bi].labels.iter().find(|l| l.0 == "le").map(|l| l.1.clone()).unwrap_or_default();
                                        if le.parse::<f64>().ok() != Some(*b) {
                                            fail("bucket-set", format!("{} bucket {} has le={} but the applicable bounds are {:?} (precedence full > prefix > suffix > global)", NAMES[m], bi, le, bounds));
                                        }
                                        let c: f64 = bucket_lines[bi].value.parse().unwrap_or(-1.0);
                                        let want_c = all.iter().filter(|v| **v <= *b).count() as f64;
                                        if c != want_c {
                                            fail("bucket-count", format!("op {}: {} le={} shows {} but {} samples are <= {}", i, NAMES[m], le, c, want_c, b));
                                        }
                                        if c < last {
                                            fail("bucket-not-cumulative", format!("{} counts decrease at le={}", NAMES[m], le));
                                        }
                                        last = c;
                                        let key = (m, le.clone());
                                        if let Some(pv) = prev_counts.get(&key) {
                                            if (c as u64) < *pv {
                                                fail("bucket-decreased-over-time", format!("{} le={} went from {} to {} between renders", NAMES[m], le, pv, c));
                                            }
                                        }
                                        prev_counts.insert(key, c as u64);
                                        line.push_str(&format!(" {}:{}", le, c));
                                    }
                                    let inf = bucket_lines[bounds.len()];
                                    let le = inf.labels.iter().find(|l| l.0 == "le").map(|l| l.1.clone()).unwrap_or_default();
                                    let c: f64 = inf.value.parse().unwrap_or(-1.0);
                                    if le != "+Inf" || c != count {
                                        fail("bucket-inf", format!("{} last bucket le={} count {} but _count is {}", NAMES[m], le, c, count));
                                    }
                                } else {
                                    // summary: window membership
                                    // a sample of age a sits in a bucket whose begin has age in [a, a + d):
                                    // surely inside the window when a + d <= w, surely outside when a >= w
                                    let must: Vec<f64> = samples[m].iter().filter(|s| now - s.0 + d <= w).map(|s| s.1).collect();
                                    let may: Vec<f64> = samples[m].iter().filter(|s| now - s.0 < w && now - s.0 + d > w).map(|s| s.1).collect();
                                    // a sample exactly W old is out (bucket begin <= ts <= now - W)
                                    let pool: Vec<f64> = must.iter().chain(may.iter()).cloned().collect();
                                    for q in ["0", "0.5", "0.9", "1"] {
                                        let qv = match get("", Some(("quantile", q))) {
                                            Some(v) => v,
                                            None => {
                                                fail("summary-shape", format!("{} lacks quantile {}", NAMES[m], q));
                                                continue;
                                            }
                                        };
                                        line.push_str(&format!(" q{}={}", q, qv));
                                        if pool.is_empty() {
                                            if qv != 0.0 {
                                                fail("summary-stale-window", format!("op {} t={}ns: {} quantile {} = {} although every sample is older than the window ({} buckets x {}ns); samples (ts,value): {:?}", i, now, NAMES[m], q, qv, p.bucket_count, d, samples[m]));
                                            }
                                            continue;
                                        }
                                        let lo = pool.iter().cloned().fold(f64::INFINITY, f64::min);
                                        let hi = pool.iter().cloned().fold(f64::NEG_INFINITY, f64::max);
                                        let tol = |x: f64| 1e-9 + 2e-3 * x.abs();
                                        let in_range = qv >= lo - tol(lo) && qv <= hi + tol(hi);
                                        let zero_ok = must.is_empty() && qv == 0.0;
                                        // (the property claims containment only. A stricter reading — the extreme
                                        // quantiles reach the extreme in-window samples — is false on the unchanged
                                        // tree: a drain hands the newest block of 64 samples over first and
                                        // RollingSummary::add drops a sample older than its newest bucket.)
                                        if !in_range && !zero_ok {
                                            fail("summary-outside-window", format!("op {} t={}ns: {} quantile {} = {} is outside [{}, {}], the range of samples inside the rolling window ({} buckets x {}ns; {} surely inside, {} possibly); samples (ts,value): {:?}", i, now, NAMES[m], q, qv, lo, hi, p.bucket_count, d, must.len(), may.len(), samples[m]));
                                        }
                                    }
                                }
                                line.push(']');
                            }
                            l2.lock().unwrap().push(line);
                        }
                    }
                }
            });
        });
        let mut rep = RunReport::ok(sim);
        let simr = rep.sim.as_ref().unwrap();
        let mut v = None;
        if !simr.panics.is_empty() {
            v = violation("panic", format!("{:?}", simr.panics));
        } else if let Some((c, d)) = bad.lock().unwrap().clone() {
            v = violation(&c, d);
        }
        let l = log.lock().unwrap();
        rep.observations = l.join("\n");
        rep.history_hash = crate::util::hash_str(&rep.observations);
        rep.count("renders", l.len() as u64);
        if let Some(s) = rep.sim.as_mut() {
            if l.iter().any(|x| x.contains('[')) {
                s.switches = s.switches.max(1);
            }
        }
        rep.violation = v;
        rep
    }
    fn shrink(&self, p: &Plan) -> Vec<Plan> {
        let mut out = vec![];
        for i in 0..p.ops.len() {
            let mut q = p.clone();
            q.ops.remove(i);
            out.push(q);
        }
        for i in 0..p.matchers.len() {
            let mut q = p.clone();
            q.matchers.remove(i);
            out.push(q);
        }
        if p.global_buckets {
            let mut q = p.clone();
            q.global_buckets = false;
            out.push(q);
        }
        if p.stale_recent {
            let mut q = p.clone();
            q.stale_recent = false;
            out.push(q);
        }
        out
    }
    fn real_components(&self) -> Vec<&'static str> {
        vec!["metrics_util::storage::Histogram (record, record_many)", "metrics_exporter_prometheus::{DistributionBuilder, Distribution, RollingSummary} through PrometheusBuilder/render", "Matcher sanitisation and ordering", "metrics_util::storage::Summary (DDSketch) quantiles"]
    }
    fn stub_components(&self) -> Vec<&'static str> {
        vec!["quanta clock (mock, driven by the history)"]
    }
    fn assumptions(&self) -> Vec<&'static str> {
        vec!["summary-typed metrics receive finite samples only (non-finite samples go to histogram-typed metrics); quantiles are compared with a 0.2% relative tolerance for the sketch's error", "half of this property is a pure function of its inputs; it is checked as an invariant on the states the simulated histories reach, not claimed as a result of schedule search"]
    }
}
