//! C03 — Key equality, ordering and hashing agree and ignore how a key was built; get_hash() is
//! stable, also when several threads race on a lazily hashed key's first use.

use crate::framework::*;
use dsim::Rng;
use metrics::{Key, Label, SharedString};
use serde::{Deserialize, Serialize};
use std::cmp::Ordering as O;
use std::hash::{Hash, Hasher};
use std::sync::{Arc, Mutex};

const NAMES: [&str; 5] = ["", "a", "b", "ab", "é"];
const LKEYS: [&str; 4] = ["a", "b", "c", ""];
const LVALS: [&str; 4] = ["1", "2", "", "ü"];

// The static strings handed to the library are slices of one buffer each, so that different
// strings (the empty one, "a", "ab") start at the same address: equality by pointer alone, without
// the length, would be wrong for them.
static NAME_BUF: &str = "abé";
static LKEY_BUF: &str = "abc";
static LVAL_BUF: &str = "12ü";
fn sname(i: usize) -> &'static str {
    let s: &'static str = match i {
        0 => &NAME_BUF[..0],
        1 => &NAME_BUF[..1],
        2 => &NAME_BUF[1..2],
        3 => &NAME_BUF[..2],
        _ => &NAME_BUF[2..],
    };
    debug_assert_eq!(s, NAMES[i]);
    s
}
fn skey(i: usize) -> &'static str {
    match i {
        0 => &LKEY_BUF[..1],
        1 => &LKEY_BUF[1..2],
        2 => &LKEY_BUF[2..3],
        _ => &LKEY_BUF[..0],
    }
}
fn sval(i: usize) -> &'static str {
    match i {
        0 => &LVAL_BUF[..1],
        1 => &LVAL_BUF[1..2],
        2 => &LVAL_BUF[..0],
        _ => &LVAL_BUF[2..],
    }
}

#[derive(Clone, Debug, Serialize, Deserialize, PartialEq)]
pub struct KeySpec {
    pub name: usize,
    pub labels: Vec<(usize, usize)>,
    /// construction path
    pub path: u8,
}

#[derive(Clone, Debug, Serialize, Deserialize, PartialEq)]
pub enum TOp {
    GetHash(usize),
    CloneHash(usize),
    StdHash(usize),
    EqCmp(usize, usize),
}

#[derive(Clone, Debug, Serialize, Deserialize)]
pub struct Plan {
    pub keys: Vec<KeySpec>,
    pub threads: Vec<Vec<TOp>>,
}

#[derive(Default)]
struct Rec(Vec<u8>);
impl Hasher for Rec {
    fn finish(&self) -> u64 {
        0
    }
    fn write(&mut self, b: &[u8]) {
        self.0.extend_from_slice(b);
        self.0.push(0xfe);
    }
}

fn std_hash_stream(k: &Key) -> Vec<u8> {
    let mut r = Rec::default();
    k.hash(&mut r);
    r.0
}

fn leak_labels(v: Vec<Label>) -> &'static [Label] {
    Box::leak(v.into_boxed_slice())
}

fn mk_label(k: usize, v: usize, style: u8) -> Label {
    match style % 3 {
        0 => Label::from_static_parts(skey(k), sval(v)),
        1 => Label::new(String::from(LKEYS[k]), String::from(LVALS[v])),
        _ => Label::new(SharedString::from(Arc::<str>::from(LKEYS[k])), SharedString::from(Arc::<str>::from(LVALS[v]))),
    }
}

pub fn build(spec: &KeySpec) -> Key {
    let labels = |style: u8| -> Vec<Label> { spec.labels.iter().map(|(k, v)| mk_label(*k, *v, style)).collect() };
    let name = sname(spec.name);
    assert!(name == NAMES[spec.name] && spec.labels.iter().all(|(k, v)| skey(*k) == LKEYS[*k] && sval(*v) == LVALS[*v]));
    match spec.path % 9 {
        0 => Key::from_parts(name, labels(0)),
        1 => Key::from_parts(String::from(name), labels(1)),
        2 => Key::from_parts(SharedString::from(Arc::<str>::from(name)), labels(2)),
        // lazily hashed constructions
        3 => Key::from_static_labels(name, leak_labels(labels(0))),
        4 => Key::from_static_parts(name, leak_labels(labels(1))),
        5 => {
            // with_extra_labels: first half at construction, rest added
            let all = labels(1);
            let cut = all.len() / 2;
            Key::from_parts(name, all[..cut].to_vec()).with_extra_labels(all[cut..].to_vec())
        }
        6 => Key::from_parts(String::from(name), labels(2)).clone(),
        7 => {
            if spec.labels.is_empty() {
                Key::from_static_name(name)
            } else {
                Key::from_static_parts(name, leak_labels(labels(2)))
            }
        }
        _ => {
            if spec.labels.is_empty() {
                Key::from_name(String::from(name))
            } else {
                let (n, l) = Key::from_parts(name, labels(0)).into_parts();
                Key::from_parts(n, l)
            }
        }
    }
}

pub struct C03Key;

impl Scenario for C03Key {
    type Plan = Plan;
    fn property(&self) -> &'static str {
        "C03"
    }
    fn name(&self) -> &'static str {
        "key"
    }
    fn horizon(&self) -> u64 {
        120
    }
    fn plan(&self, r: &mut Rng, _tier: Tier) -> Plan {
        let nk = r.range(3, 5) as usize;
        let mut keys: Vec<KeySpec> = vec![];
        for i in 0..nk {
            // derive some keys from earlier ones: same parts other path, permuted labels, one change
            if i > 0 && r.chance(600) {
                let mut s = keys[r.below(i as u64) as usize].clone();
                match r.below(6) {
                    0 => {}
                    1 => r.shuffle(&mut s.labels),
                    4 | 5 => {
                        // re-interleave the labels keeping the relative order of same-named ones:
                        // the result is an equal key (also with repeated label names)
                        let mut groups: Vec<Vec<(usize, usize)>> = vec![vec![]; LKEYS.len()];
                        for l in &s.labels {
                            groups[l.0].push(*l);
                        }
                        for g in groups.iter_mut() {
                            g.reverse();
                        }
                        let mut out = vec![];
                        loop {
                            let live: Vec<usize> = (0..groups.len()).filter(|i| !groups[*i].is_empty()).collect();
                            if live.is_empty() {
                                break;
                            }
                            let g = *r.pick(&live);
                            out.push(groups[g].pop().unwrap());
                        }
                        s.labels = out;
                    }
                    2 => {
                        if !s.labels.is_empty() {
                            // (for very long label lists mostly the last one: index arithmetic wraps there)
                            let j = if s.labels.len() > 200 && r.chance(600) { s.labels.len() - 1 } else { r.below(s.labels.len() as u64) as usize };
                            s.labels[j].1 = r.below(LVALS.len() as u64) as usize;
                        }
                    }
                    _ => {
                        s.labels.reverse();
                    }
                }
                s.path = r.below(9) as u8;
                keys.push(s);
                continue;
            }
            let n = if r.chance(25) { *r.pick(&[255usize, 256, 257, 258, 300]) } else { *r.pick(&[0usize, 1, 2, 2, 2, 3, 3, 4, 7, 8, 9, 16, 21, 24, 33, 48]) };
            let distinct = r.chance(400);
            let mut labels = vec![];
            for j in 0..n {
                let k = if distinct { j % LKEYS.len() } else { r.below(LKEYS.len() as u64) as usize };
                labels.push((k, r.below(LVALS.len() as u64) as usize));
            }
            if distinct && n > LKEYS.len() {
                labels.truncate(LKEYS.len());
            }
            keys.push(KeySpec { name: r.below(NAMES.len() as u64) as usize, labels, path: r.below(9) as u8 });
        }
        let nt = r.range(2, 4) as usize;
        let mut threads = vec![];
        for _ in 0..nt {
            let n = r.range(1, 5);
            threads.push((0..n).map(|_| {
                let k = r.below(nk as u64) as usize;
                match r.below(6) {
                    0 | 1 | 2 => TOp::GetHash(k),
                    3 => TOp::CloneHash(k),
                    4 => TOp::StdHash(k),
                    _ => TOp::EqCmp(k, r.below(nk as u64) as usize),
                }
            }).collect());
        }
        Plan { keys, threads }
    }
    fn execute(&self, plan: &Plan, sched: &SchedSpec) -> RunReport {
        // observations: (tid, key index, hash)
        let obs: Arc<Mutex<Vec<(u32, usize, u64, u8)>>> = Arc::new(Mutex::new(vec![]));
        let laws: Arc<Mutex<Option<(String, String)>>> = Arc::new(Mutex::new(None));
        let p = plan.clone();
        let (o2, l2) = (obs.clone(), laws.clone());
        let sim = simulate(sched, 60_000, move || {
            let keys: Arc<Vec<Key>> = Arc::new(p.keys.iter().map(build).collect());
            let mut hs = vec![];
            for (ti, ops) in p.threads.iter().enumerate() {
                let ops = ops.clone();
                let keys = keys.clone();
                let obs = o2.clone();
                let laws = l2.clone();
                hs.push(dsim::spawn(&format!("w{}", ti + 1), move || {
                    for op in ops {
                        dsim::point("c03.op");
                        match op {
                            TOp::GetHash(k) => {
                                let h = keys[k].get_hash();
                                obs.lock().unwrap().push((dsim::tid(), k, h, 0));
                            }
                            TOp::CloneHash(k) => {
                                let c = keys[k].clone();
                                let h = c.get_hash();
                                obs.lock().unwrap().push((dsim::tid(), k, h, 1));
                                if c != keys[k] || c.cmp(&keys[k]) != O::Equal {
                                    *laws.lock().unwrap() = Some(("clone-not-equal".into(), format!("clone of key {} is not equal to it", k)));
                                }
                            }
                            TOp::StdHash(k) => {
                                let s = std_hash_stream(&keys[k]);
                                obs.lock().unwrap().push((dsim::tid(), k, crate::util::hash_str(&format!("{:?}", s)), 2));
                            }
                            TOp::EqCmp(a, b) => {
                                let eq = keys[a] == keys[b];
                                let c = keys[a].cmp(&keys[b]);
                                if eq != (c == O::Equal) {
                                    *laws.lock().unwrap() = Some(("eq-ord-disagree".into(), format!("keys {} and {}: == is {} but cmp is {:?}", a, b, eq, c)));
                                }
                            }
                        }
                    }
                }));
            }
            for h in hs {
                h.join();
            }
            // Relational laws over all pairs / triples, at quiescence.
            let n = keys.len();
            let mut bad: Option<(String, String)> = None;
            // keys built, dropped and rebuilt on one thread from owned names of one length (the
            // allocator hands the same block out again): the hash belongs to the content
            for k in 0..4u32 {
                let name = format!("rebuilt-name-{}", k);
                let a = Key::from_name(name.clone());
                let ha = a.get_hash();
                drop(a);
                let b = Key::from_parts(name.clone(), Vec::<metrics::Label>::new());
                if ha != b.get_hash() {
                    bad = Some(("eq-but-get-hash-differs".into(), format!("Key::from_name({:?}) hashed to {:#x}, the equal Key::from_parts({:?}, []) to {:#x} (keys built one after the other on one thread)", name, ha, name, b.get_hash())));
                }
            }
            let desc = |i: usize| format!("#{} {}", i, keys[i]);
            for a in 0..n {
                if !(keys[a] == keys[a]) || keys[a].cmp(&keys[a]) != O::Equal {
                    bad = Some(("not-reflexive".into(), desc(a)));
                }
                for b in 0..n {
                    let eq = keys[a] == keys[b];
                    let c = keys[a].cmp(&keys[b]);
                    if eq != (keys[b] == keys[a]) {
                        bad = Some(("eq-not-symmetric".into(), format!("{} vs {}", desc(a), desc(b))));
                    }
                    if c != keys[b].cmp(&keys[a]).reverse() {
                        bad = Some(("cmp-not-antisymmetric".into(), format!("{} vs {}", desc(a), desc(b))));
                    }
                    if eq != (c == O::Equal) {
                        bad = Some(("eq-ord-disagree".into(), format!("{} vs {}: == is {} but cmp is {:?}", desc(a), desc(b), eq, c)));
                    }
                    if keys[a].partial_cmp(&keys[b]) != Some(c) {
                        bad = Some(("partial-cmp-differs".into(), format!("{} vs {}", desc(a), desc(b))));
                    }
                    if eq {
                        if std_hash_stream(&keys[a]) != std_hash_stream(&keys[b]) {
                            bad = Some(("eq-but-std-hash-differs".into(), format!("{} vs {}", desc(a), desc(b))));
                        }
                        if keys[a].get_hash() != keys[b].get_hash() {
                            bad = Some(("eq-but-get-hash-differs".into(), format!("{} vs {}", desc(a), desc(b))));
                        }
                    }
                    for c3 in 0..n {
                        if eq && keys[b] == keys[c3] && !(keys[a] == keys[c3]) {
                            bad = Some(("eq-not-transitive".into(), format!("{} {} {}", desc(a), desc(b), desc(c3))));
                        }
                        if c != O::Greater && keys[b].cmp(&keys[c3]) != O::Greater && keys[a].cmp(&keys[c3]) == O::Greater {
                            bad = Some(("cmp-not-transitive".into(), format!("{} <= {} <= {} but first > third", desc(a), desc(b), desc(c3))));
                        }
                    }
                    // construction-path irrelevance and permutation irrelevance
                    let sa = &p.keys[a];
                    let sb = &p.keys[b];
                    if sa.name == sb.name && sa.labels == sb.labels && !eq {
                        bad = Some(("same-parts-not-equal".into(), format!("{} (path {}) vs {} (path {})", desc(a), sa.path, desc(b), sb.path)));
                    }
                    let names_a: Vec<usize> = sa.labels.iter().map(|l| l.0).collect();
                    let distinct = {
                        let mut s = names_a.clone();
                        s.sort();
                        s.dedup();
                        s.len() == names_a.len()
                    };
                    if distinct && sa.name == sb.name {
                        let mut la = sa.labels.clone();
                        let mut lb = sb.labels.clone();
                        la.sort();
                        lb.sort();
                        if la == lb && !eq {
                            bad = Some(("permutation-not-equal".into(), format!("{} vs {} differ only in label order (distinct label names)", desc(a), desc(b))));
                        }
                    }
                    // same label sequence per label name (any interleaving of different names) => equal
                    let per_name = |s: &KeySpec| -> Vec<Vec<usize>> {
                        let mut g: Vec<Vec<usize>> = vec![vec![]; LKEYS.len()];
                        for l in &s.labels {
                            g[l.0].push(l.1);
                        }
                        g
                    };
                    if sa.name == sb.name && sa.labels.len() != 2 && per_name(sa) == per_name(sb) && !eq {
                        bad = Some(("interleaving-not-equal".into(), format!("{} vs {} list the same values per label name in the same order", desc(a), desc(b))));
                    }
                    // sanity in the other direction: different names / label multisets are never equal
                    let mut la = sa.labels.clone();
                    let mut lb = sb.labels.clone();
                    la.sort();
                    lb.sort();
                    if (sa.name != sb.name || la != lb) && eq {
                        bad = Some(("different-parts-equal".into(), format!("{} vs {}", desc(a), desc(b))));
                    }
                }
            }
            if let Some(b) = bad {
                let mut l = l2.lock().unwrap();
                if l.is_none() {
                    *l = Some(b);
                }
            }
            // reference hash: an eagerly hashed, independently built equal key
            for (i, s) in p.keys.iter().enumerate() {
                let reference = build(&KeySpec { name: s.name, labels: s.labels.clone(), path: 1 });
                o2.lock().unwrap().push((0, i, reference.get_hash(), 9));
                o2.lock().unwrap().push((0, i, keys[i].get_hash(), 0));
                o2.lock().unwrap().push((0, i, crate::util::hash_str(&format!("{:?}", std_hash_stream(&reference))), 8));
            }
        });
        let mut rep = RunReport::ok(sim);
        let simr = rep.sim.as_ref().unwrap();
        let o = obs.lock().unwrap().clone();
        let mut v = None;
        if !simr.panics.is_empty() {
            v = violation("panic", format!("{:?}", simr.panics));
        } else if simr.end == dsim::End::Completed {
            if let Some((c, d)) = laws.lock().unwrap().clone() {
                v = violation(&c, d);
            }
            // every get_hash() observation of key k (own, clone, any thread, any step) = reference
            for k in 0..plan.keys.len() {
                let reference = o.iter().find(|x| x.1 == k && x.3 == 9).map(|x| x.2);
                let ref_std = o.iter().find(|x| x.1 == k && x.3 == 8).map(|x| x.2);
                for x in o.iter().filter(|x| x.1 == k && (x.3 == 0 || x.3 == 1)) {
                    if v.is_none() && Some(x.2) != reference {
                        v = violation("get-hash-unstable", format!("get_hash() of key #{} returned {:#x} on t{} ({}), reference {:#x}", k, x.2, x.0, if x.3 == 1 { "clone" } else { "shared key" }, reference.unwrap_or(0)));
                    }
                }
                for x in o.iter().filter(|x| x.1 == k && x.3 == 2) {
                    if v.is_none() && Some(x.2) != ref_std {
                        v = violation("std-hash-unstable", format!("std Hash stream of key #{} differs on t{}", k, x.0));
                    }
                }
            }
        }
        rep.observations = format!("{:?}", o);
        rep.history_hash = crate::util::hash_str(&rep.observations);
        rep.count("keys", plan.keys.len() as u64);
        rep.count("lazy_keys", plan.keys.iter().filter(|k| matches!(k.path % 9, 3 | 4 | 7)).count() as u64);
        rep.violation = v;
        rep
    }
    fn shrink(&self, p: &Plan) -> Vec<Plan> {
        let mut out = vec![];
        // drop a key (re-index ops)
        if p.keys.len() > 1 {
            for i in 0..p.keys.len() {
                let mut q = p.clone();
                q.keys.remove(i);
                let fix = |k: usize| if k > i { k - 1 } else if k == i { 0 } else { k };
                for t in q.threads.iter_mut() {
                    for op in t.iter_mut() {
                        *op = match op.clone() {
                            TOp::GetHash(k) => TOp::GetHash(fix(k)),
                            TOp::CloneHash(k) => TOp::CloneHash(fix(k)),
                            TOp::StdHash(k) => TOp::StdHash(fix(k)),
                            TOp::EqCmp(a, b) => TOp::EqCmp(fix(a), fix(b)),
                        };
                    }
                }
                out.push(q);
            }
        }
        for i in 0..p.threads.len() {
            if p.threads.len() > 1 {
                let mut q = p.clone();
                q.threads.remove(i);
                out.push(q);
            }
            for j in 0..p.threads[i].len() {
                if p.threads[i].len() > 1 {
                    let mut q = p.clone();
                    q.threads[i].remove(j);
                    out.push(q);
                }
            }
        }
        for i in 0..p.keys.len() {
            for j in 0..p.keys[i].labels.len() {
                let mut q = p.clone();
                q.keys[i].labels.remove(j);
                out.push(q);
            }
            if p.keys[i].path != 0 {
                let mut q = p.clone();
                q.keys[i].path = 0;
                out.push(q);
            }
            if p.keys[i].name != 1 {
                let mut q = p.clone();
                q.keys[i].name = 1;
                out.push(q);
            }
        }
        out
    }
    fn real_components(&self) -> Vec<&'static str> {
        vec!["metrics::Key (all public constructors, clone, PartialEq, Ord, Hash, get_hash)", "metrics::Label, SharedString (static / owned / Arc)", "KeyHasher"]
    }
    fn stub_components(&self) -> Vec<&'static str> {
        vec!["thread scheduler (dsim)", "recording std::hash::Hasher"]
    }
    fn assumptions(&self) -> Vec<&'static str> {
        vec!["the algebraic laws are seeded input generation evaluated at quiescence inside the simulation; the schedule search decides the racing get_hash()/clone() clause"]
    }
}
