//! C01 — emissions reach exactly the recorder in scope, never one whose scope ended.
//! Real `with_local_recorder`, `set_default_local_recorder`, `with_recorder`, every macro arm;
//! logging doubles beneath. Programs of nested / unordered local scopes, leaked guards and panics
//! run on 1–3 simulated threads. Two interpreters run alongside: the *specification* (innermost
//! live scope, else global, else nobody) and a model of the *save-and-restore implementation*; a
//! dispatch that differs from the specification but matches the implementation model after a
//! non-LIFO guard drop or a `mem::forget` is attributed to those (known findings), anything else
//! is a new violation. A quarter of the plans end with a thread-teardown episode on a plain OS
//! thread (an application thread-local whose destructor emits; see `teardown_episode`).

use crate::doubles::{new_log, Ev, LogRecorder, Shared};
use crate::framework::*;
use dsim::Rng;
use metrics::{
    counter, describe_counter, describe_gauge, describe_histogram, gauge, histogram, Counter, Gauge, Histogram, Key, KeyName, Level, LocalRecorderGuard, Metadata, Recorder, SharedString, Unit,
};
use serde::{Deserialize, Serialize};
use std::panic::{catch_unwind, AssertUnwindSafe};
use std::sync::{Arc, Mutex};

// ---------------------------------------------------------------------------------------------
// Global recorder: the program's InstallGlobal step calls the real `set_global_recorder` (several
// steps, on any thread, may race; at most one wins). The process-wide cell is put back to
// "uninstalled" between runs through the guarded `__verif_reset_global_recorder` hook.

#[derive(Default)]
struct GState {
    /// recorders whose install call has begun
    begun: Vec<usize>,
    /// recorder whose install call has returned Ok
    done: Option<usize>,
    oks: Vec<usize>,
}

/// Two different recorders at one address: `&pair.a` (a LogRecorder) and `&pair` (a Pair, which
/// records into `b`). Their data pointers are equal, their vtables are not.
#[repr(C)]
pub struct Pair {
    a: LogRecorder,
    b: LogRecorder,
}

impl Recorder for Pair {
    fn describe_counter(&self, k: KeyName, u: Option<Unit>, d: SharedString) {
        self.b.describe_counter(k, u, d)
    }
    fn describe_gauge(&self, k: KeyName, u: Option<Unit>, d: SharedString) {
        self.b.describe_gauge(k, u, d)
    }
    fn describe_histogram(&self, k: KeyName, u: Option<Unit>, d: SharedString) {
        self.b.describe_histogram(k, u, d)
    }
    fn register_counter(&self, k: &Key, m: &Metadata<'_>) -> Counter {
        self.b.register_counter(k, m)
    }
    fn register_gauge(&self, k: &Key, m: &Metadata<'_>) -> Gauge {
        self.b.register_gauge(k, m)
    }
    fn register_histogram(&self, k: &Key, m: &Metadata<'_>) -> Histogram {
        self.b.register_histogram(k, m)
    }
}

type RecRef = &'static (dyn Recorder + Sync);

// ---------------------------------------------------------------------------------------------
// Emission sites: every arm of key_var! / metadata_var! / describe!, with what the call site spells.

pub struct Expect {
    pub op: &'static str,
    pub name: &'static str,
    pub labels: &'static [(&'static str, &'static str)],
    pub level: &'static str,
    pub target: Option<&'static str>,
    pub unit: Option<&'static str>,
    pub desc: &'static str,
}

const MODP: &str = module_path!();

fn site(i: usize) -> Expect {
    let dynamic = String::from("dyn");
    let labels_vec = vec![("lk".to_string(), "lv".to_string())];
    let e = |op, name, labels, level, target, unit, desc| Expect { op, name, labels, level, target, unit, desc };
    match i {
        0 => {
            counter!("s0_literal").increment(1);
            e("register_counter", "s0_literal", &[], "INFO", None, None, "")
        }
        1 => {
            counter!(format!("s1_{}", dynamic)).increment(1);
            e("register_counter", "s1_dyn", &[], "INFO", None, None, "")
        }
        2 => {
            counter!("s2", "a" => "1", "b" => "2").increment(1);
            e("register_counter", "s2", &[("a", "1"), ("b", "2")], "INFO", None, None, "")
        }
        3 => {
            counter!(String::from("s3"), "a" => "1").increment(1);
            e("register_counter", "s3", &[("a", "1")], "INFO", None, None, "")
        }
        4 => {
            let v = String::from("computed");
            counter!("s4", "a" => v, "b" => "2").increment(1);
            e("register_counter", "s4", &[("a", "computed"), ("b", "2")], "INFO", None, None, "")
        }
        5 => {
            counter!("s5", &labels_vec).increment(1);
            e("register_counter", "s5", &[("lk", "lv")], "INFO", None, None, "")
        }
        6 => {
            counter!(target: "my_target", "s6").increment(1);
            e("register_counter", "s6", &[], "INFO", Some("my_target"), None, "")
        }
        7 => {
            counter!(level: Level::DEBUG, "s7", "a" => "1").increment(1);
            e("register_counter", "s7", &[("a", "1")], "DEBUG", None, None, "")
        }
        8 => {
            counter!(target: "t8", level: Level::ERROR, "s8").increment(1);
            e("register_counter", "s8", &[], "ERROR", Some("t8"), None, "")
        }
        9 => {
            gauge!("s9").set(1.0);
            e("register_gauge", "s9", &[], "INFO", None, None, "")
        }
        10 => {
            gauge!("s10", "g" => "x").increment(1.0);
            e("register_gauge", "s10", &[("g", "x")], "INFO", None, None, "")
        }
        11 => {
            gauge!(target: "t11", level: Level::WARN, format!("s11_{}", dynamic), "g" => "x").decrement(1.0);
            e("register_gauge", "s11_dyn", &[("g", "x")], "WARN", Some("t11"), None, "")
        }
        12 => {
            histogram!("s12").record(1.0);
            e("register_histogram", "s12", &[], "INFO", None, None, "")
        }
        13 => {
            histogram!(level: Level::TRACE, "s13", &labels_vec).record(2.0);
            e("register_histogram", "s13", &[("lk", "lv")], "TRACE", None, None, "")
        }
        14 => {
            let k = String::from("kk");
            histogram!("s14", k => "vv").record(2.0);
            e("register_histogram", "s14", &[("kk", "vv")], "INFO", None, None, "")
        }
        15 => {
            describe_counter!("s15", "counts things");
            e("describe_counter", "s15", &[], "", None, None, "counts things")
        }
        16 => {
            describe_counter!("s16", Unit::Bytes, "bytes of things");
            e("describe_counter", "s16", &[], "", None, Some("bytes"), "bytes of things")
        }
        17 => {
            describe_gauge!(format!("s17_{}", dynamic), "a gauge");
            e("describe_gauge", "s17_dyn", &[], "", None, None, "a gauge")
        }
        18 => {
            describe_gauge!("s18", Unit::Percent, String::from("owned description"));
            e("describe_gauge", "s18", &[], "", None, Some("percent"), "owned description")
        }
        19 => {
            describe_histogram!("s19", "");
            e("describe_histogram", "s19", &[], "", None, None, "")
        }
        20 => {
            describe_histogram!("s20", Unit::Seconds, "latency");
            e("describe_histogram", "s20", &[], "", None, Some("seconds"), "latency")
        }
        21 => {
            counter!("s21", "dup" => "1", "dup" => "2", "z" => "").increment(1);
            e("register_counter", "s21", &[("dup", "1"), ("dup", "2"), ("z", "")], "INFO", None, None, "")
        }
        _ => {
            counter!("s22",).increment(1);
            e("register_counter", "s22", &[], "INFO", None, None, "")
        }
    }
}
pub const NSITES: usize = 23;

// ---------------------------------------------------------------------------------------------

#[derive(Clone, Debug, Serialize, Deserialize, PartialEq)]
pub enum P {
    Emit(usize),
    Scope(usize, Vec<P>),
    Install(usize, usize),
    DropGuard(usize),
    ForgetGuard(usize),
    Panic,
    Catch(Vec<P>),
    InstallGlobal(usize),
    /// emission during which the recorder in scope panics (caught at the call site)
    EmitPanic(usize),
    /// emission during which the recorder in scope emits a metric of its own
    EmitReenter(usize),
}

#[derive(Clone, Debug, Serialize, Deserialize)]
pub struct Plan {
    pub nrec: usize,
    pub threads: Vec<Vec<P>>,
    /// full profile: non-LIFO guard drops and mem::forget are generated
    pub full: bool,
    /// recorders 0 and 1 (and 2 and 3) are two different recorders at one address
    #[serde(default)]
    pub aliased: bool,
    /// thread-teardown episode after the simulated part (0 = none): bit 0 = the application's
    /// thread-local is first touched before the thread's first emission (so, on glibc, its
    /// destructor runs after everything the facade may have registered), bit 1 = it is first
    /// touched after it, bit 2 = the thread also runs a local scope before it ends
    #[serde(default)]
    pub teardown: u8,
}

// ---------------------------------------------------------------------------------------------
// Thread teardown: an application thread-local whose destructor emits (per-thread statistics
// flushed at thread exit). No local scope can be live then, so the emission belongs to the global
// recorder. Runs on a plain OS thread after the simulated part: what a thread does after its
// closure has returned is outside any scheduler's control, and it has no interleaving in it — the
// plan decides the one thing that matters, the order in which the thread-locals were first touched.

static TD_GLOBAL: std::sync::atomic::AtomicU64 = std::sync::atomic::AtomicU64::new(0);
static TD_LOCAL: std::sync::atomic::AtomicU64 = std::sync::atomic::AtomicU64::new(0);

struct TdRec(&'static std::sync::atomic::AtomicU64);

impl Recorder for TdRec {
    fn describe_counter(&self, _: KeyName, _: Option<Unit>, _: SharedString) {}
    fn describe_gauge(&self, _: KeyName, _: Option<Unit>, _: SharedString) {}
    fn describe_histogram(&self, _: KeyName, _: Option<Unit>, _: SharedString) {}
    fn register_counter(&self, k: &Key, _: &Metadata<'_>) -> Counter {
        // one decimal digit per emission name so that the total tells which ones arrived
        let w = match k.name() {
            "td_live" => 1,
            "td_scoped" => 10,
            "td_exit" => 100,
            _ => 1000,
        };
        self.0.fetch_add(w, std::sync::atomic::Ordering::SeqCst);
        Counter::noop()
    }
    fn register_gauge(&self, _: &Key, _: &Metadata<'_>) -> Gauge {
        Gauge::noop()
    }
    fn register_histogram(&self, _: &Key, _: &Metadata<'_>) -> Histogram {
        Histogram::noop()
    }
}

static TD_GLOBAL_REC: TdRec = TdRec(&TD_GLOBAL);
static TD_LOCAL_REC: TdRec = TdRec(&TD_LOCAL);

struct ExitStats(std::cell::Cell<bool>);

impl Drop for ExitStats {
    fn drop(&mut self) {
        if self.0.get() {
            counter!("td_exit").increment(1);
        }
    }
}

thread_local! {
    static EXIT_STATS: ExitStats = ExitStats(std::cell::Cell::new(false));
}

/// Returns (class, detail) of a violation, and what was observed.
fn teardown_episode(mode: u8) -> (Option<(String, String)>, String) {
    use std::sync::atomic::Ordering::SeqCst;
    metrics::__verif_reset_global_recorder();
    TD_GLOBAL.store(0, SeqCst);
    TD_LOCAL.store(0, SeqCst);
    if metrics::set_global_recorder(&TD_GLOBAL_REC).is_err() {
        return (Some(("global-install-none-won".into(), "teardown episode: set_global_recorder failed on a fresh cell".into())), String::new());
    }
    let h = std::thread::spawn(move || {
        if mode & 1 != 0 {
            EXIT_STATS.with(|e| e.0.set(true));
        }
        if mode & 4 != 0 {
            metrics::with_local_recorder(&TD_LOCAL_REC, || counter!("td_scoped").increment(1));
        }
        counter!("td_live").increment(1);
        if mode & 1 == 0 {
            EXIT_STATS.with(|e| e.0.set(true));
        }
    });
    let joined = h.join();
    metrics::__verif_reset_global_recorder();
    let (g, l) = (TD_GLOBAL.load(SeqCst), TD_LOCAL.load(SeqCst));
    let obs = format!("teardown:{}:g{}:l{};", mode, g, l);
    let want_l = if mode & 4 != 0 { 10 } else { 0 };
    let v = if joined.is_err() {
        Some(("panic".to_string(), format!("teardown episode (mode {}): the thread panicked", mode)))
    } else if g != 101 || l != want_l {
        let class = if g % 1000 / 100 == 0 { "teardown-emission-lost" } else { "teardown-emission-misrouted" };
        Some((class.to_string(), format!("teardown episode (mode {}): the global recorder saw {} and the scoped one {} (digits: exit / scoped / live emissions); expected 101 and {} — an emission from a thread-local's destructor, with no scope live, belongs to the installed global recorder", mode, g, l, want_l)))
    } else {
        None
    };
    (v, obs)
}

struct Unwind;

struct ThreadCtx<'a> {
    tid: u32,
    recs: &'a [RecRef],
    shareds: &'a [Arc<Shared>],
    full: bool,
    g: &'a Mutex<GState>,
    log: &'a crate::doubles::Log,
    guards: Vec<Option<(usize, LocalRecorderGuard<'static>, usize, Option<usize>)>>, // (scope id, guard, rec, impl-model prev)
    next_scope: usize,
    spec: Vec<(usize, usize)>, // (scope id, rec) in install order
    impl_cur: Option<usize>,
    forgot: bool,
    non_lifo: bool,
    errors: &'a Mutex<Vec<(String, String)>>,
    emitted: &'a Mutex<u64>,
}

impl<'a> ThreadCtx<'a> {
    fn fail(&self, class: &str, detail: String) {
        self.errors.lock().unwrap().push((class.to_string(), detail));
    }

    fn emit(&mut self, i: usize) {
        let before = self.log.lock().unwrap().len();
        let g_before = self.g.lock().unwrap().done;
        let exp = site(i % NSITES);
        let (g_after, g_begun) = {
            let g = self.g.lock().unwrap();
            (g.done, g.begun.clone())
        };
        *self.emitted.lock().unwrap() += 1;
        let new: Vec<Ev> = self.log.lock().unwrap()[before..].iter().filter(|e| e.tid == self.tid && (e.op.starts_with("register") || e.op.starts_with("describe"))).cloned().collect();
        let spec_local = self.spec.last().map(|s| s.1);
        // no local scope: the global recorder once an install has completed; while none has,
        // nobody, or a recorder whose install call is in progress
        let nolocal: Vec<Option<usize>> = match g_before {
            Some(d) => vec![Some(d)],
            None => {
                let mut v = vec![None];
                v.extend(g_begun.iter().map(|b| Some(*b)));
                v
            }
        };
        let acceptable: Vec<Option<usize>> = match spec_local {
            Some(r) => vec![Some(r)],
            None => nolocal.clone(),
        };
        let actual: Option<usize> = new.first().map(|e| e.rec as usize);
        if new.len() > 1 {
            self.fail("delivered-twice", format!("t{} site {}: one emission produced {} recorder calls {:?}", self.tid, i, new.len(), new.iter().map(|e| (e.rec, e.op.clone())).collect::<Vec<_>>()));
            return;
        }
        if !acceptable.contains(&actual) {
            let impl_ok = match self.impl_cur {
                Some(r) => actual == Some(r),
                None => nolocal.contains(&actual),
            };
            let mut sig = String::new();
            if impl_ok {
                if self.forgot {
                    sig.push_str(" sig:guard-forgotten");
                } else if self.non_lifo {
                    sig.push_str(" sig:non-lifo-guard-drop");
                }
            }
            let scope_live = actual.map(|a| self.spec.iter().any(|s| s.1 == a) || Some(a) == g_before || Some(a) == g_after || g_begun.contains(&a)).unwrap_or(true);
            self.fail(
                if scope_live { "dispatched-to-wrong-recorder" } else { "dispatched-to-ended-scope" },
                format!(
                    "t{} site {} ({}): delivered to {:?}, but the innermost live local scope of this thread is {:?} (live scopes in install order {:?}; global {:?}){}",
                    self.tid, i, exp.name, actual, spec_local, self.spec, g_before, sig
                ),
            );
            return;
        }
        if let Some(ev) = new.first() {
            let labels: Vec<(String, String)> = exp.labels.iter().map(|(k, v)| (k.to_string(), v.to_string())).collect();
            let is_reg = exp.op.starts_with("register");
            let want_target = exp.target.unwrap_or(MODP);
            let ok = ev.op == exp.op
                && ev.name == exp.name
                && ev.labels == labels
                && ev.desc == exp.desc
                && ev.unit.as_deref() == exp.unit
                && (!is_reg || (ev.level.trim_start_matches("Level(").trim_end_matches(')').to_uppercase() == exp.level && ev.target == want_target && ev.module.as_deref() == Some(MODP)));
            if !ok {
                self.fail("emission-mangled", format!("t{} site {}: call site spells ({} {} {:?} level {} target {} unit {:?} desc {:?}) but the recorder saw ({} {} {:?} level {} target {} module {:?} unit {:?} desc {:?})", self.tid, i, exp.op, exp.name, labels, exp.level, want_target, exp.unit, exp.desc, ev.op, ev.name, ev.labels, ev.level, ev.target, ev.module, ev.unit, ev.desc));
            }
        }
    }

    /// The recorder in scope misbehaves during this emission: it panics (caught right here), or
    /// it emits a metric of its own from inside the call. Neither may change where this thread's
    /// emissions go afterwards, and the nested emission belongs to the same innermost recorder.
    fn emit_faulty(&mut self, i: usize, panic: bool) {
        let target = self.spec.last().map(|s| s.1).or(self.g.lock().unwrap().done);
        let r = match (target, self.full) {
            (Some(r), false) => r,
            _ => return self.emit(i),
        };
        let sh = &self.shareds[r];
        let before = self.log.lock().unwrap().len();
        *self.emitted.lock().unwrap() += 1;
        if panic {
            crate::doubles::set_flag(&sh.panic_next, self.tid);
            let res = catch_unwind(AssertUnwindSafe(|| {
                site(i % NSITES);
            }));
            let fired = !crate::doubles::take_flag(&sh.panic_next, self.tid);
            if let Err(p) = res {
                if !p.is::<crate::doubles::DoublePanic>() {
                    std::panic::resume_unwind(p);
                }
            }
            if !fired {
                self.fail("dispatched-to-wrong-recorder", format!("t{} site {}: the emission did not enter recorder {} (innermost live scope, else global) at all", self.tid, i, r));
            }
        } else {
            crate::doubles::set_flag(&sh.reenter_next, self.tid);
            site(i % NSITES);
            let fired = !crate::doubles::take_flag(&sh.reenter_next, self.tid);
            let new: Vec<Ev> = self.log.lock().unwrap()[before..].iter().filter(|e| e.tid == self.tid && (e.op.starts_with("register") || e.op.starts_with("describe"))).cloned().collect();
            let ok = fired && new.len() == 2 && new[0].rec as usize == r && new[1].rec as usize == r && new[1].name == "nested_emission";
            if !ok {
                self.fail("nested-emission-misdirected", format!("t{} site {}: recorder {} (innermost live scope, else global) emits a metric of its own while handling the call; expected both calls on recorder {}, saw {:?}", self.tid, i, r, r, new.iter().map(|e| (e.rec, e.op.clone(), e.name.clone())).collect::<Vec<_>>()));
            }
        }
    }

    fn run(&mut self, prog: &[P]) -> Result<(), Unwind> {
        for p in prog {
            dsim::point("c01.op");
            match p {
                P::Emit(i) => self.emit(*i),
                P::EmitPanic(i) => self.emit_faulty(*i, true),
                P::EmitReenter(i) => self.emit_faulty(*i, false),
                P::Scope(r, body) => {
                    let rec = self.recs[*r % self.recs.len()];
                    let r = *r % self.recs.len();
                    let id = self.next_scope;
                    self.next_scope += 1;
                    self.spec.push((id, r));
                    let prev_impl = self.impl_cur;
                    self.impl_cur = Some(r);
                    let res = catch_unwind(AssertUnwindSafe(|| metrics::with_local_recorder(rec, || self.run(body))));
                    // the closure scope has ended, normally or by unwinding; a guard created inside it
                    // and still alive makes this a non-LIFO ending too
                    if self.spec.last().map(|s| s.0) != Some(id) {
                        self.non_lifo = true;
                    }
                    self.spec.retain(|s| s.0 != id);
                    self.impl_cur = prev_impl;
                    match res {
                        Ok(Ok(())) => {}
                        Ok(Err(Unwind)) => return Err(Unwind),
                        Err(payload) => {
                            if payload.is::<Unwind>() {
                                return Err(Unwind);
                            }
                            std::panic::resume_unwind(payload);
                        }
                    }
                }
                P::Install(r, slot) => {
                    let r = *r % self.recs.len();
                    let rec: RecRef = self.recs[r];
                    while self.guards.len() <= *slot {
                        self.guards.push(None);
                    }
                    if self.guards[*slot].is_none() {
                        let id = self.next_scope;
                        self.next_scope += 1;
                        let g = metrics::set_default_local_recorder(rec);
                        self.guards[*slot] = Some((id, g, r, self.impl_cur));
                        self.spec.push((id, r));
                        self.impl_cur = Some(r);
                    }
                }
                P::DropGuard(slot) | P::ForgetGuard(slot) => {
                    if let Some(Some((id, g, _r, prev))) = self.guards.get_mut(*slot).map(|g| g.take()) {
                        if self.spec.last().map(|s| s.0) != Some(id) {
                            self.non_lifo = true;
                        }
                        self.spec.retain(|s| s.0 != id);
                        if matches!(p, P::ForgetGuard(_)) {
                            self.forgot = true;
                            std::mem::forget(g);
                        } else {
                            drop(g);
                            self.impl_cur = prev;
                        }
                    }
                }
                P::Panic => {
                    std::panic::resume_unwind(Box::new(Unwind));
                }
                P::Catch(body) => {
                    let res = catch_unwind(AssertUnwindSafe(|| self.run(body)));
                    match res {
                        Ok(_) => {}
                        Err(payload) => {
                            if !payload.is::<Unwind>() {
                                std::panic::resume_unwind(payload);
                            }
                        }
                    }
                }
                P::InstallGlobal(r) => {
                    let r = *r % self.recs.len();
                    self.g.lock().unwrap().begun.push(r);
                    let res = metrics::set_global_recorder(self.recs[r]);
                    let mut g = self.g.lock().unwrap();
                    if res.is_ok() {
                        g.oks.push(r);
                        if g.done.is_none() {
                            g.done = Some(r);
                        }
                    }
                }
            }
        }
        Ok(())
    }
}

fn gen_prog(r: &mut Rng, depth: u32, n: u64, nrec: usize, full: bool, slots: &mut Vec<bool>, in_catch: bool) -> Vec<P> {
    let mut out = vec![];
    for _ in 0..n {
        match r.below(15) {
            0..=4 => out.push(P::Emit(r.below(NSITES as u64) as usize)),
            5..=6 => {
                if depth < 5 {
                    let k = r.range(1, 4);
                    let body = gen_prog(r, depth + 1, k, nrec, full, slots, in_catch);
                    out.push(P::Scope(r.below(nrec as u64) as usize, body));
                } else {
                    out.push(P::Emit(r.below(NSITES as u64) as usize));
                }
            }
            7..=8 => {
                // guards are only handled at depth 0 in the core profile so that they are LIFO with
                // respect to closure scopes
                if full || depth == 0 {
                    let slot = slots.len();
                    slots.push(true);
                    out.push(P::Install(r.below(nrec as u64) as usize, slot));
                }
            }
            9 => {
                let live: Vec<usize> = slots.iter().enumerate().filter(|(_, l)| **l).map(|(i, _)| i).collect();
                if !live.is_empty() && (full || depth == 0) {
                    // core profile: drop the most recent guard; full: any
                    let s = if full { *r.pick(&live) } else { *live.last().unwrap() };
                    slots[s] = false;
                    if full && r.chance(300) {
                        out.push(P::ForgetGuard(s));
                    } else {
                        out.push(P::DropGuard(s));
                    }
                }
            }
            10 => {
                if depth < 5 {
                    let k = r.range(1, 3);
                    let mut body = gen_prog(r, depth + 1, k, nrec, full, slots, true);
                    if r.chance(700) {
                        body.push(P::Panic);
                    }
                    out.push(P::Catch(vec![P::Scope(r.below(nrec as u64) as usize, body)]));
                }
            }
            11 => {
                if in_catch && r.chance(300) {
                    out.push(P::Panic);
                    break;
                }
            }
            12 => {
                if r.chance(300) {
                    out.push(P::InstallGlobal(r.below(nrec as u64) as usize));
                }
            }
            13 => {
                let i = r.below(NSITES as u64) as usize;
                out.push(if r.chance(500) { P::EmitPanic(i) } else { P::EmitReenter(i) });
            }
            _ => out.push(P::Emit(r.below(NSITES as u64) as usize)),
        }
    }
    out
}

pub struct C01Scopes;

impl Scenario for C01Scopes {
    type Plan = Plan;
    fn property(&self) -> &'static str {
        "C01"
    }
    fn name(&self) -> &'static str {
        "scopes"
    }
    fn horizon(&self) -> u64 {
        200
    }
    fn plan(&self, r: &mut Rng, tier: Tier) -> Plan {
        let nrec = r.range(2, 4) as usize;
        let full = r.chance(400);
        let nthreads = r.range(1, 3) as usize;
        let n = if tier == Tier::Thorough { 12 } else { 8 };
        let threads = (0..nthreads)
            .map(|_| {
                let mut slots = vec![];
                {
                    let k = r.range(2, n);
                    gen_prog(r, 0, k, nrec, full, &mut slots, false)
                }
            })
            .collect();
        let aliased = r.chance(300);
        let teardown = if r.chance(250) { [1u8, 2, 5, 6][r.range(0, 3) as usize] } else { 0 };
        Plan { nrec, threads, full, aliased, teardown }
    }
    fn execute(&self, plan: &Plan, sched: &SchedSpec) -> RunReport {
        metrics::__verif_reset_global_recorder();
        let log = new_log();
        let shareds: Vec<Arc<Shared>> = (0..plan.nrec).map(|_| Shared::new(log.clone())).collect();
        let mut recs: Vec<RecRef> = vec![];
        while recs.len() < plan.nrec {
            let i = recs.len();
            if plan.aliased && recs.len() + 1 < plan.nrec {
                let pair: &'static Pair = Box::leak(Box::new(Pair { a: LogRecorder::new(i as u32, shareds[i].clone()), b: LogRecorder::new(i as u32 + 1, shareds[i + 1].clone()) }));
                recs.push(&pair.a);
                recs.push(pair);
            } else {
                let r: &'static LogRecorder = Box::leak(Box::new(LogRecorder::new(i as u32, shareds[i].clone())));
                recs.push(r);
            }
        }
        let gstate: Arc<Mutex<GState>> = Arc::new(Mutex::new(GState::default()));
        let errors: Arc<Mutex<Vec<(String, String)>>> = Arc::new(Mutex::new(vec![]));
        let emitted: Arc<Mutex<u64>> = Arc::new(Mutex::new(0));
        let p = plan.clone();
        let (l2, e2, em2, recs2, g2, sh2, full) = (log.clone(), errors.clone(), emitted.clone(), recs.clone(), gstate.clone(), shareds.clone(), plan.full);
        let sim = simulate(sched, 100_000, move || {
            let mut hs = vec![];
            for (ti, prog) in p.threads.iter().enumerate() {
                let prog = prog.clone();
                let (log, errors, emitted, recs, g, shareds) = (l2.clone(), e2.clone(), em2.clone(), recs2.clone(), g2.clone(), sh2.clone());
                hs.push(dsim::spawn(&format!("p{}", ti + 1), move || {
                    let mut ctx = ThreadCtx { tid: dsim::tid(), recs: &recs, shareds: &shareds, full, g: &g, log: &log, guards: vec![], next_scope: 0, spec: vec![], impl_cur: None, forgot: false, non_lifo: false, errors: &errors, emitted: &emitted };
                    let _ = ctx.run(&prog);
                    // thread exit with scopes still open: guards are dropped most-recent-first
                    while let Some(g) = ctx.guards.pop() {
                        drop(g);
                    }
                }));
            }
            for h in hs {
                h.join();
            }
        });
        metrics::__verif_reset_global_recorder();
        let mut rep = RunReport::ok(sim);
        let simr = rep.sim.as_ref().unwrap();
        let mut v = None;
        if !simr.panics.is_empty() {
            v = violation("panic", format!("{:?}", simr.panics));
        } else if let Some((c, d)) = errors.lock().unwrap().first().cloned() {
            v = violation(&c, d);
        } else if gstate.lock().unwrap().oks.len() > 1 {
            v = violation("global-installed-twice", format!("set_global_recorder returned Ok for recorders {:?} in one process life", gstate.lock().unwrap().oks));
        } else if !gstate.lock().unwrap().begun.is_empty() && gstate.lock().unwrap().oks.is_empty() {
            v = violation("global-install-none-won", format!("set_global_recorder was called for {:?} on a fresh process and none succeeded", gstate.lock().unwrap().begun));
        }
        let l = log.lock().unwrap();
        let mut obs = String::new();
        for e in l.iter() {
            obs.push_str(&format!("{}>{}:{}:{};", e.tid, e.rec, e.op, e.name));
        }
        drop(l);
        if plan.teardown != 0 {
            let (tv, tobs) = teardown_episode(plan.teardown);
            obs.push_str(&tobs);
            rep.count("teardown_episodes", 1);
            if v.is_none() {
                if let Some((c, d)) = tv {
                    v = violation(&c, d);
                }
            }
        }
        let l = log.lock().unwrap();
        rep.history_hash = crate::util::hash_str(&obs);
        rep.observations = obs;
        rep.count("emissions", *emitted.lock().unwrap());
        rep.count("recorder_calls", l.len() as u64);
        rep.count("full_profile_runs", plan.full as u64);
        if let Some(s) = rep.sim.as_mut() {
            if !l.is_empty() {
                s.switches = s.switches.max(1);
            }
        }
        rep.violation = v;
        rep
    }
    fn shrink(&self, p: &Plan) -> Vec<Plan> {
        fn variants(prog: &[P]) -> Vec<Vec<P>> {
            let mut out = vec![];
            for i in 0..prog.len() {
                let mut q = prog.to_vec();
                q.remove(i);
                out.push(q);
                match &prog[i] {
                    P::Scope(r, body) => {
                        for b in variants(body) {
                            let mut q = prog.to_vec();
                            q[i] = P::Scope(*r, b);
                            out.push(q);
                        }
                        // unwrap the scope
                        let mut q = prog.to_vec();
                        q.splice(i..=i, body.iter().cloned());
                        out.push(q);
                    }
                    P::Catch(body) => {
                        for b in variants(body) {
                            let mut q = prog.to_vec();
                            q[i] = P::Catch(b);
                            out.push(q);
                        }
                    }
                    _ => {}
                }
            }
            out
        }
        let mut out = vec![];
        if p.aliased {
            out.push(Plan { aliased: false, ..p.clone() });
        }
        if p.teardown != 0 {
            out.push(Plan { teardown: 0, ..p.clone() });
            if p.teardown & 4 != 0 {
                out.push(Plan { teardown: p.teardown & 3, ..p.clone() });
            }
        }
        if p.threads.len() > 1 {
            for i in 0..p.threads.len() {
                let mut q = p.clone();
                q.threads.remove(i);
                out.push(q);
            }
        }
        for i in 0..p.threads.len() {
            for v in variants(&p.threads[i]) {
                let mut q = p.clone();
                q.threads[i] = v;
                out.push(q);
            }
        }
        out
    }
    fn real_components(&self) -> Vec<&'static str> {
        vec!["metrics::{with_local_recorder, set_default_local_recorder, LocalRecorderGuard, with_recorder}", "counter!/gauge!/histogram!/describe_*! (23 call sites covering every key_var!/metadata_var!/describe! arm)", "set_global_recorder + GLOBAL_RECORDER cell (real install by the program's InstallGlobal step, possibly racing; try_load on every unscoped emission)", "thread teardown: a real OS thread whose application thread-local emits from its destructor, before / after the facade's own thread-local was first touched (real std TLS destructor order)"]
    }
    fn stub_components(&self) -> Vec<&'static str> {
        vec!["thread scheduler (dsim)", "recorder doubles (owned by the harness beyond their logical scope so that a dispatch to an ended scope is observed instead of being undefined behaviour)", "the process-wide global cell is put back to 'uninstalled' between runs through the guarded hook __verif_reset_global_recorder (a real process can install only once)"]
    }
    fn assumptions(&self) -> Vec<&'static str> {
        vec!["'innermost' for guards dropped out of order = the most recently installed scope that is still live on that thread", "recorders really freed while still referenced (use-after-free) is out of reach of this engine: doubles are kept alive and the dispatch is flagged instead"]
    }
}
