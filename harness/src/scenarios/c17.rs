//! C17 — span fields become labels with metric > inner span > outer span precedence.
//! Real `TracingContextLayer`, `MetricsLayer`, tracing-subscriber `Registry`, one shared
//! `Dispatch`; 1–3 dsim threads interleaved at operation granularity, each walking its own span
//! tree; a logging double as the inner recorder.

use crate::doubles::{new_log, LogRecorder, Shared};
use crate::framework::*;
use dsim::Rng;
use metrics::{Key, KeyName, Label, Level, Metadata, Recorder};
use metrics_tracing_context::{LabelFilter, MetricsLayer, TracingContextLayer};
use metrics_util::layers::Layer;
use serde::{Deserialize, Serialize};
use std::collections::BTreeMap;
use std::sync::{Arc, Mutex};
use tracing::field::Empty;
use tracing::{span, Dispatch};
use tracing_subscriber::layer::SubscriberExt;

static MD: Metadata<'static> = Metadata::new("c17", Level::INFO, None);

#[derive(Clone, Debug, Serialize, Deserialize, PartialEq)]
pub enum Op {
    /// enter a new span of kind 0..4 as a child of the current one; `v` seeds its field values
    Enter(u8, u8),
    Exit,
    /// record a field on the current span: 0 = late (declared Empty on kinds 1 and 3), 1 = shared
    Record(u8, u8),
    /// emit a metric whose own labels are the subset (bitmask) of [shared, user, own, late]
    Emit(u8, u8),
    /// emit the metric "m_boom": under filter 3 the user-supplied label filter panics on it
    /// (caught at the call site); under the other filters it is an ordinary emission
    EmitBoom,
    /// record the `shared` field on the *parent* of the current span (the child already exists)
    RecordParent(u8),
    /// try to create a span whose field value panics in the middle of formatting itself (caught at
    /// the call site): the span never comes to exist, and nothing of it may show up anywhere later
    EnterBoom(u8),
}

#[derive(Clone, Debug, Serialize, Deserialize)]
pub struct Plan {
    /// a span shared by two extra threads: one has it entered and emits `.0` metrics, the other
    /// records its `shared` field `.1` times with a value whose formatting is a scheduling point
    #[serde(default)]
    pub shared_span: Option<(u32, u32)>,
    /// 0 include all, 1 allow-list [shared, user], 2 custom (drops span labels whose value starts with 'x', and all for metric "m_skip")
    pub filter: u8,
    pub threads: Vec<Vec<Op>>,
    /// shape of the subscriber stack: 0 = Registry + MetricsLayer, 1 = Registry + a do-nothing
    /// layer + MetricsLayer (a different subscriber type; a worker process sees both over its life)
    #[serde(default)]
    pub stack: u8,
    /// the threads with an odd index run under a second dispatcher (their own subscriber, of the
    /// other shape) while sharing the one recorder: a long-lived recorder used under several
    /// dispatchers
    #[serde(default)]
    pub second_dispatch: bool,
}

/// a layer that does nothing (it only changes the subscriber's type)
struct Idle;
impl<S: tracing::Subscriber> tracing_subscriber::Layer<S> for Idle {}

fn make_dispatch(shape: u8) -> Dispatch {
    if shape % 2 == 0 {
        Dispatch::new(tracing_subscriber::registry().with(MetricsLayer::new()))
    } else {
        Dispatch::new(tracing_subscriber::registry().with(Idle).with(MetricsLayer::new()))
    }
}

/// A field value whose formatting passes a scheduling point: the layer formats recorded values
/// (`Labels::from_record`) before it takes tracing-subscriber's span-extension lock, so another
/// thread may run in the middle of a `record()`. (Nothing may yield *inside* that lock, a real lock
/// of a dependency: the emitting thread's call is therefore one indivisible step below.)
struct Yielding(u64);
impl std::fmt::Debug for Yielding {
    fn fmt(&self, f: &mut std::fmt::Formatter<'_>) -> std::fmt::Result {
        if dsim::in_sim() {
            dsim::point("c17.value.fmt");
        }
        write!(f, "{}", self.0)
    }
}
/// A field value whose Debug impl writes part of its output and then panics.
struct Exploding(String);
struct ValuePanic;
impl std::fmt::Debug for Exploding {
    fn fmt(&self, f: &mut std::fmt::Formatter<'_>) -> std::fmt::Result {
        write!(f, "partial-{}-", self.0)?;
        std::panic::resume_unwind(Box::new(ValuePanic));
    }
}
struct Plain(u64);
impl std::fmt::Debug for Plain {
    fn fmt(&self, f: &mut std::fmt::Formatter<'_>) -> std::fmt::Result {
        write!(f, "{}", self.0)
    }
}

/// Filter 3: admits everything, panics when asked about the metric "m_boom".
#[derive(Clone)]
struct Panicky;
struct FilterPanic;
impl LabelFilter for Panicky {
    fn should_include_label(&self, name: &KeyName, _label: &Label) -> bool {
        if name.as_str() == "m_boom" {
            std::panic::resume_unwind(Box::new(FilterPanic));
        }
        true
    }
}

#[derive(Clone)]
struct Custom;
impl LabelFilter for Custom {
    fn should_include_label(&self, name: &KeyName, label: &Label) -> bool {
        name.as_str() != "m_skip" && !label.value().starts_with('x')
    }
}

fn val(v: u8) -> String {
    ["x1", "alpha", "beta", "x-ray"][v as usize % 4].to_string()
}

const OWN: [&str; 4] = ["shared", "user", "own", "late"];

pub struct C17Tracing;

/// model: the labels a span carries
type Labels = BTreeMap<String, String>;

fn filter_ok(filter: u8, metric: &str, k: &str, v: &str) -> bool {
    match filter {
        0 | 3 => true,
        1 => k == "shared" || k == "user",
        _ => metric != "m_skip" && !v.starts_with('x'),
    }
}

impl Scenario for C17Tracing {
    type Plan = Plan;
    fn property(&self) -> &'static str {
        "C17"
    }
    fn name(&self) -> &'static str {
        "tracing"
    }
    fn horizon(&self) -> u64 {
        120
    }
    fn plan(&self, r: &mut Rng, tier: Tier) -> Plan {
        let nt = r.range(1, 3) as usize;
        let n = if tier == Tier::Thorough { 16 } else { 10 };
        let threads = (0..nt)
            .map(|_| {
                let mut depth = 0;
                (0..r.range(2, n))
                    .map(|_| match r.below(10) {
                        0..=2 if depth < 5 => {
                            depth += 1;
                            Op::Enter(if r.chance(250) { 4 + r.below(4) as u8 } else { r.below(4) as u8 }, r.below(4) as u8)
                        }
                        3 if depth > 0 => {
                            depth -= 1;
                            Op::Exit
                        }
                        4 => Op::Record(r.below(2) as u8, r.below(4) as u8),
                        5 => match r.below(5) {
                            0 => Op::EmitBoom,
                            1 => Op::RecordParent(r.below(4) as u8),
                            4 => Op::EnterBoom(r.below(4) as u8),
                            _ => Op::Record(r.below(2) as u8, r.below(4) as u8),
                        },
                        _ => Op::Emit(r.below(16) as u8, r.below(4) as u8),
                    })
                    .collect()
            })
            .collect();
        let shared_span = if r.chance(300) { Some((r.range(1, 4) as u32, r.range(1, 3) as u32)) } else { None };
        Plan { shared_span, filter: if r.chance(150) { 3 } else { r.below(3) as u8 }, threads, stack: if r.chance(250) { 1 } else { 0 }, second_dispatch: r.chance(200) }
    }
    fn execute(&self, plan: &Plan, sched: &SchedSpec) -> RunReport {
        let log = new_log();
        let errors: Arc<Mutex<Vec<(String, String)>>> = Arc::new(Mutex::new(vec![]));
        let p = plan.clone();
        let (l2, e2) = (log.clone(), errors.clone());
        let sim = simulate(sched, 100_000, move || {
            let dispatch = make_dispatch(p.stack);
            let dispatch2 = if p.second_dispatch { make_dispatch(p.stack + 1) } else { dispatch.clone() };
            let shared = Shared::new(l2.clone());
            let double = LogRecorder::new(0, shared);
            let rec: Arc<dyn Recorder + Send + Sync> = match p.filter {
                0 => Arc::new(TracingContextLayer::all().layer(double)),
                1 => Arc::new(TracingContextLayer::only_allow(["shared", "user"]).layer(double)),
                3 => Arc::new(TracingContextLayer::new(Panicky).layer(double)),
                _ => Arc::new(TracingContextLayer::new(Custom).layer(double)),
            };
            let mut hs = vec![];
            for (ti, ops) in p.threads.iter().enumerate() {
                let ops = ops.clone();
                let dispatch = if ti % 2 == 1 { dispatch2.clone() } else { dispatch.clone() };
                let rec = rec.clone();
                let (log, errors) = (l2.clone(), e2.clone());
                let filter = p.filter;
                hs.push(dsim::spawn(&format!("s{}", ti + 1), move || {
                    let tid = dsim::tid();
                    tracing::dispatcher::with_default(&dispatch, || {
                        let mut entered: Vec<span::EnteredSpan> = vec![];
                        let mut model: Vec<(u8, Labels)> = vec![];
                        for (oi, op) in ops.iter().enumerate() {
                            dsim::point("c17.op");
                            match op {
                                Op::Enter(kind, v) => {
                                    let s = val(*v);
                                    let n = *v as u64 + 10;
                                    let (sp, own): (tracing::Span, Vec<(&str, String)>) = match kind % 8 {
                                        // wide spans: two of them nested carry more labels than the pooled label
                                        // maps keep capacity for
                                        4 => (span!(tracing::Level::INFO, "wide_a", wa0 = n, wa1 = n, wa2 = n, wa3 = n, wa4 = n, wa5 = n, wa6 = n, wa7 = n, wa8 = n, wa9 = n, wa10 = n, wa11 = n, wa12 = n, wa13 = n, wa14 = n, wa15 = n), ["wa0", "wa1", "wa2", "wa3", "wa4", "wa5", "wa6", "wa7", "wa8", "wa9", "wa10", "wa11", "wa12", "wa13", "wa14", "wa15"].iter().map(|k| (*k, n.to_string())).collect()),
                                        5 => (span!(tracing::Level::INFO, "wide_b", wb0 = n, wb1 = n, wb2 = n, wb3 = n, wb4 = n, wb5 = n, wb6 = n, wb7 = n, wb8 = n, wb9 = n, wb10 = n, wb11 = n, wb12 = n, wb13 = n, wb14 = n, wb15 = n), ["wb0", "wb1", "wb2", "wb3", "wb4", "wb5", "wb6", "wb7", "wb8", "wb9", "wb10", "wb11", "wb12", "wb13", "wb14", "wb15"].iter().map(|k| (*k, n.to_string())).collect()),
                                        0 => (span!(tracing::Level::INFO, "k0", user = s.as_str(), shared = n), vec![("user", s.clone()), ("shared", n.to_string())]),
                                        1 => (span!(tracing::Level::INFO, "k1", shared = -(n as i64), mid_only = (*v % 2 == 0), late = Empty), vec![("shared", (-(n as i64)).to_string()), ("mid_only", (*v % 2 == 0).to_string())]),
                                        2 => (span!(tracing::Level::INFO, "k2", shared = ?s, leaf = s.as_str()), vec![("shared", format!("{:?}", s)), ("leaf", s.clone())]),
                                        3 => (span!(tracing::Level::INFO, "k3", late = Empty), vec![]),
                                        // explicit root: not a child of the span that is current here
                                        6 => (span!(parent: None, tracing::Level::INFO, "detached", leaf = s.as_str(), own_root = n), vec![("leaf", s.clone()), ("own_root", n.to_string())]),
                                        // a span that declares no fields at all
                                        7 => (span!(tracing::Level::INFO, "bare"), vec![]),
                                        _ => unreachable!(),
                                    };
                                    let mut labels: Labels = own.into_iter().map(|(k, v)| (k.to_string(), v)).collect();
                                    if let (Some((_, parent)), true) = (model.last(), kind % 8 != 6) {
                                        for (k, v) in parent {
                                            labels.entry(k.clone()).or_insert_with(|| v.clone());
                                        }
                                    }
                                    model.push((*kind % 8, labels));
                                    entered.push(sp.entered());
                                }
                                Op::Exit => {
                                    if let Some(e) = entered.pop() {
                                        drop(e);
                                        model.pop();
                                    }
                                }
                                Op::Record(which, v) => {
                                    if let (Some(e), Some((kind, labels))) = (entered.last(), model.last_mut()) {
                                        let s = val(*v);
                                        // a field can only be recorded on a span whose callsite declares it
                                        match which {
                                            0 if *kind == 1 || *kind == 3 => {
                                                e.record("late", s.as_str());
                                                labels.insert("late".into(), s);
                                            }
                                            1 if *kind < 3 => {
                                                let n = *v as u64 + 100;
                                                e.record("shared", n);
                                                labels.insert("shared".into(), n.to_string());
                                            }
                                            _ => {}
                                        }
                                    }
                                }
                                Op::RecordParent(v) => {
                                    let n = model.len();
                                    if n >= 2 && model[n - 2].0 < 3 {
                                        let val = *v as u64 + 200;
                                        entered[n - 2].record("shared", val);
                                        // only the parent's own view changes: the child took its copy when
                                        // it was created
                                        model[n - 2].1.insert("shared".into(), val.to_string());
                                    }
                                }
                                Op::EnterBoom(v) => {
                                    let r = std::panic::catch_unwind(std::panic::AssertUnwindSafe(|| drop(span!(tracing::Level::INFO, "boom", shared = ?Exploding(val(*v)), leaf = "never"))));
                                    if let Err(p) = r {
                                        if !p.is::<ValuePanic>() {
                                            std::panic::resume_unwind(p);
                                        }
                                    }
                                }
                                Op::EmitBoom if filter == 3 => {
                                    let key = Key::from_name("m_boom");
                                    let r = std::panic::catch_unwind(std::panic::AssertUnwindSafe(|| drop(rec.register_counter(&key, &MD))));
                                    if let Err(p) = r {
                                        if !p.is::<FilterPanic>() {
                                            std::panic::resume_unwind(p);
                                        }
                                    }
                                }
                                Op::EmitBoom | Op::Emit(..) => {
                                    let (mask, v): (&u8, &u8) = match op {
                                        Op::Emit(m, v) => (m, v),
                                        _ => (&0, &0),
                                    };
                                    let name = if matches!(op, Op::EmitBoom) { "m_boom" } else if *v == 3 { "m_skip" } else { "m_one" };
                                    let own: Vec<(String, String)> = OWN.iter().enumerate().filter(|(i, _)| mask & (1 << i) != 0).map(|(_, k)| (k.to_string(), format!("metric-{}", k))).collect();
                                    let key = Key::from_parts(name, own.iter().map(|(k, v)| Label::new(k.clone(), v.clone())).collect::<Vec<_>>());
                                    let before = log.lock().unwrap().len();
                                    match oi % 3 {
                                        0 => drop(rec.register_counter(&key, &MD)),
                                        1 => drop(rec.register_gauge(&key, &MD)),
                                        _ => drop(rec.register_histogram(&key, &MD)),
                                    }
                                    let l = log.lock().unwrap();
                                    let evs: Vec<_> = l[before..].iter().filter(|e| e.tid == tid && e.op.starts_with("register")).collect();
                                    if evs.len() != 1 {
                                        errors.lock().unwrap().push(("emission-count".into(), format!("t{} op {}: {} recorder calls for one emission", tid, oi, evs.len())));
                                        continue;
                                    }
                                    let got = &evs[0].labels;
                                    let span_labels: Labels = model.last().map(|m| m.1.clone()).unwrap_or_default();
                                    let expected: Vec<(String, String)> = if span_labels.is_empty() {
                                        own.clone()
                                    } else {
                                        let mut m: BTreeMap<String, String> = span_labels.iter().filter(|(k, v)| filter_ok(filter, name, k, v)).map(|(k, v)| (k.clone(), v.clone())).collect();
                                        for (k, v) in &own {
                                            m.insert(k.clone(), v.clone());
                                        }
                                        m.into_iter().collect()
                                    };
                                    let mut g = got.clone();
                                    let mut e = expected.clone();
                                    g.sort();
                                    e.sort();
                                    let dup = {
                                        let mut names: Vec<&String> = got.iter().map(|x| &x.0).collect();
                                        names.sort();
                                        names.windows(2).any(|w| w[0] == w[1])
                                    };
                                    if dup {
                                        errors.lock().unwrap().push(("label-name-twice".into(), format!("t{} op {}: key carries a label name twice: {:?}", tid, oi, got)));
                                    } else if g != e {
                                        errors.lock().unwrap().push((
                                            "labels-differ".into(),
                                            format!("t{} op {}: metric {} with own labels {:?} inside span stack {:?} (filter {}) reached the recorder with {:?}, expected {:?} (metric > inner span > outer span; later record() wins on its span only)", tid, oi, name, own, model.iter().map(|m| &m.1).collect::<Vec<_>>(), filter, got, expected),
                                        ));
                                    } else if span_labels.is_empty() && *got != own {
                                        errors.lock().unwrap().push(("key-changed-without-span".into(), format!("t{} op {}: no span fields in scope but the key changed from {:?} to {:?}", tid, oi, own, got)));
                                    }
                                    if evs[0].name != name {
                                        errors.lock().unwrap().push(("name-changed".into(), format!("metric name {} became {}", name, evs[0].name)));
                                    }
                                }
                            }
                        }
                        while let Some(e) = entered.pop() {
                            drop(e);
                        }
                    });
                }));
            }
            if let Some((emits, records)) = p.shared_span {
                // (record invoked, record returned, value) of the recording thread
                let recs: Arc<Mutex<Vec<(u64, u64, String)>>> = Arc::new(Mutex::new(vec![]));
                let sp = tracing::dispatcher::with_default(&dispatch, || span!(tracing::Level::INFO, "shared_span", user = "u0", shared = 1u64));
                {
                    let (sp, dispatch, rec, log, errors, recs, filter) = (sp.clone(), dispatch.clone(), rec.clone(), l2.clone(), e2.clone(), recs.clone(), p.filter);
                    hs.push(dsim::spawn("shared-emitter", move || {
                        let tid = dsim::tid();
                        tracing::dispatcher::with_default(&dispatch, || {
                            let _e = sp.entered();
                            for i in 0..emits {
                                dsim::point("c17.shared.emit");
                                let key = Key::from_name("m_one");
                                let before = log.lock().unwrap().len();
                                let inv = dsim::step();
                                // one indivisible step: the layer reads the span's extensions under
                                // tracing-subscriber's real lock, and a scheduling point (the key's
                                // atomics) inside that region would let the recording thread block
                                // on the lock for real
                                dsim::passthrough(true);
                                drop(rec.register_counter(&key, &MD));
                                dsim::passthrough(false);
                                let ret = dsim::step();
                                let l = log.lock().unwrap();
                                let evs: Vec<_> = l[before..].iter().filter(|e| e.tid == tid && e.op.starts_with("register")).collect();
                                if evs.len() != 1 {
                                    errors.lock().unwrap().push(("emission-count".into(), format!("shared-span emitter: {} recorder calls for one emission", evs.len())));
                                    continue;
                                }
                                let got: BTreeMap<String, String> = evs[0].labels.iter().cloned().collect();
                                // values the `shared` field may show: the last record completed before the
                                // emission began (else the initial 1) or any record overlapping the emission
                                let rs = recs.lock().unwrap().clone();
                                let mut ok_vals: Vec<String> = rs.iter().filter(|r| r.0 < ret && r.1 > inv).map(|r| r.2.clone()).collect();
                                ok_vals.push(rs.iter().filter(|r| r.1 < inv).last().map(|r| r.2.clone()).unwrap_or_else(|| "1".to_string()));
                                let user_ok = got.get("user").map(|v| v == "u0").unwrap_or(!filter_ok(filter, "m_one", "user", "u0"));
                                let shared_ok = match got.get("shared") {
                                    Some(v) => ok_vals.contains(v),
                                    None => ok_vals.iter().any(|v| !filter_ok(filter, "m_one", "shared", v)),
                                };
                                if !user_ok || !shared_ok || got.len() > 2 {
                                    errors.lock().unwrap().push(("labels-differ".into(), format!("emission {} (steps {}..{}) inside a span that another thread is recording a field on reached the recorder with {:?}; expected user=u0 and shared in {:?} (filter {}); records (invoked, returned, value): {:?}", i, inv, ret, got, ok_vals, filter, rs)));
                                }
                            }
                        });
                    }));
                }
                {
                    let (sp, dispatch, recs) = (sp.clone(), dispatch.clone(), recs.clone());
                    hs.push(dsim::spawn("shared-recorder", move || {
                        tracing::dispatcher::with_default(&dispatch, || {
                            for j in 0..records {
                                dsim::point("c17.shared.record");
                                let val = Yielding(100 + j as u64);
                                // the record is announced before it starts so that an emission overlapping
                                // it finds it in the list
                                let idx = {
                                    let mut r = recs.lock().unwrap();
                                    r.push((dsim::step(), u64::MAX, format!("{:?}", Plain(val.0))));
                                    r.len() - 1
                                };
                                sp.record("shared", tracing::field::debug(&val));
                                recs.lock().unwrap()[idx].1 = dsim::step();
                            }
                        });
                    }));
                }
            }
            for h in hs {
                h.join();
            }
        });
        let mut rep = RunReport::ok(sim);
        let simr = rep.sim.as_ref().unwrap();
        let mut v = None;
        if !simr.panics.is_empty() {
            v = violation("panic", format!("{:?}", simr.panics));
        } else if let Some((c, d)) = errors.lock().unwrap().first().cloned() {
            v = violation(&c, d);
        }
        let l = log.lock().unwrap();
        let mut obs = String::new();
        for e in l.iter() {
            let mut lb = e.labels.clone();
            lb.sort();
            obs.push_str(&format!("{}:{}:{:?};", e.tid, e.name, lb));
        }
        rep.history_hash = crate::util::hash_str(&obs);
        rep.observations = obs;
        rep.count("emissions", l.len() as u64);
        rep.count("emissions_with_span_labels", l.iter().filter(|e| e.labels.iter().any(|x| !x.1.starts_with("metric-"))).count() as u64);
        if let Some(s) = rep.sim.as_mut() {
            if !l.is_empty() {
                s.switches = s.switches.max(1);
            }
        }
        rep.violation = v;
        rep
    }
    fn shrink(&self, p: &Plan) -> Vec<Plan> {
        let mut out = vec![];
        if p.threads.len() > 1 {
            for i in 0..p.threads.len() {
                let mut q = p.clone();
                q.threads.remove(i);
                out.push(q);
            }
        }
        for i in 0..p.threads.len() {
            for j in 0..p.threads[i].len() {
                let mut q = p.clone();
                q.threads[i].remove(j);
                out.push(q);
            }
        }
        if p.filter != 0 {
            let mut q = p.clone();
            q.filter = 0;
            out.push(q);
        }
        if let Some((e, r)) = p.shared_span {
            out.push(Plan { shared_span: None, ..p.clone() });
            if e > 1 {
                out.push(Plan { shared_span: Some((e - 1, r)), ..p.clone() });
            }
            if r > 1 {
                out.push(Plan { shared_span: Some((e, r - 1)), ..p.clone() });
            }
        }
        out
    }
    fn real_components(&self) -> Vec<&'static str> {
        vec!["metrics_tracing_context::{TracingContextLayer, TracingContext::enhance_key, MetricsLayer (on_new_span, on_record), Labels visitor, label filters}", "tracing + tracing-subscriber Registry (span store, per-thread current-span stack)", "lockfree-object-pool label map pool"]
    }
    fn stub_components(&self) -> Vec<&'static str> {
        vec!["thread scheduler (dsim) at harness-operation granularity (sharded-slab and the object pool are not instrumented)", "inner recorder double"]
    }
    fn assumptions(&self) -> Vec<&'static str> {
        vec!["span call sites are a fixed set of six (two of them with 16 fields each) (tracing needs static call sites) with overlapping field names, Empty fields and values of every visited type; interleavings inside sharded-slab / the label pool are not subdivided"]
    }
}
