//! C20 — a recoverable recorder is live until recovered, inert and dropped once after.
//! Real `RecoverableRecorder`/`WeakRecorder`/`RecoveryHandle` (through the guarded `__verif_build`);
//! the shimmed Arc/Weak make upgrade, unwrap attempt and strong-reference drop sync points.

use crate::doubles::{new_log, LogRecorder, Shared};
use crate::framework::*;
use dsim::Rng;
use metrics::{Key, KeyName, Level, Metadata, Recorder};
use metrics_util::RecoverableRecorder;
use serde::{Deserialize, Serialize};
use std::sync::atomic::Ordering;
use std::sync::{Arc, Mutex};

#[derive(Clone, Debug, Serialize, Deserialize, PartialEq)]
pub enum Em {
    RegCounter,
    RegGauge,
    RegHistogram,
    DescCounter,
    DescGauge,
    DescHistogram,
    /// fault: the wrapped recorder panics during this registration (caught by the emitter)
    RegCounterPanics,
    /// fault: the wrapped recorder emits a metric of its own while handling this registration
    RegCounterReenters,
}

#[derive(Clone, Debug, Serialize, Deserialize)]
pub struct Plan {
    pub emitters: Vec<Vec<Em>>,
    /// true = into_inner, false = drop the handle
    pub recover: bool,
    /// harness points the recovering thread passes before it acts (lets emitters get going)
    pub delay: u32,
    /// also exercise `install()` failing because a global recorder already exists
    #[serde(default)]
    pub install_fails: bool,
    /// metric handles obtained through the wrapper are retained until the end of the run
    #[serde(default)]
    pub keep_handles: bool,
    /// the wrapper is installed as the global recorder with the real `install()` and emissions go
    /// through `metrics::with_recorder` (otherwise the wrapper is built stand-alone)
    #[serde(default)]
    pub via_install: bool,
    /// fault: the first call that enters the wrapped recorder stays inside for this many
    /// milliseconds of virtual time
    #[serde(default)]
    pub slow_inside_ms: u64,
    /// fault: the first call that enters the wrapped recorder passes this many scheduling points
    /// inside (into_inner polls all the while)
    #[serde(default)]
    pub busy_inside: u64,
}

#[derive(Clone, Debug)]
struct EmEv {
    tid: u32,
    inv: u64,
    ret: u64,
    reached: bool,
    handle_live: bool,
    /// the recorder was made to panic during this emission
    faulted: bool,
    /// the recorder's own emission made from inside this call never came back to it
    nested_lost: bool,
}

pub struct C20Recoverable;

static MD: Metadata<'static> = Metadata::new("c20", Level::INFO, Some("c20::mod"));

impl Scenario for C20Recoverable {
    type Plan = Plan;
    fn property(&self) -> &'static str {
        "C20"
    }
    fn name(&self) -> &'static str {
        "recoverable"
    }
    fn horizon(&self) -> u64 {
        150
    }
    fn plan(&self, r: &mut Rng, _tier: Tier) -> Plan {
        let n = r.range(1, 3) as usize;
        let mut emitters = vec![];
        for _ in 0..n {
            let k = r.range(1, 5);
            emitters.push((0..k).map(|_| match r.below(7) {
                6 => {
                    if r.chance(500) {
                        Em::RegCounterPanics
                    } else {
                        Em::RegCounterReenters
                    }
                }
                0 => Em::RegCounter,
                1 => Em::RegGauge,
                2 => Em::RegHistogram,
                3 => Em::DescCounter,
                4 => Em::DescGauge,
                _ => Em::DescHistogram,
            }).collect());
        }
        Plan { emitters, recover: r.chance(700), delay: r.below(4) as u32, install_fails: r.chance(300), keep_handles: r.chance(300), via_install: r.chance(400), slow_inside_ms: if r.chance(150) { *r.pick(&[1u64, 250, 1000]) } else { 0 }, busy_inside: if r.chance(6) { 120_000 } else { 0 } }
    }
    fn execute(&self, plan: &Plan, sched: &SchedSpec) -> RunReport {
        // one run = one process life as far as the global recorder cell is concerned
        metrics::__verif_reset_global_recorder();
        let log = new_log();
        let shared = Shared::new(log.clone());
        shared.yield_inside.store(true, Ordering::SeqCst);
        shared.sleep_inside_ns.store(plan.slow_inside_ms * 1_000_000, Ordering::SeqCst);
        shared.busy_inside.store(plan.busy_inside, Ordering::SeqCst);
        let max_steps = if plan.busy_inside > 0 { 1_000_000 } else { 40_000 };
        let evs: Arc<Mutex<Vec<EmEv>>> = Arc::new(Mutex::new(vec![]));
        // (rec inv, rec ret, in_flight at return, intact)
        let recov: Arc<Mutex<(u64, u64, i64, bool)>> = Arc::new(Mutex::new((0, 0, 0, true)));
        let p = plan.clone();
        let (sh2, ev2, rc2, log2) = (shared.clone(), evs.clone(), recov.clone(), log.clone());
        let sim = simulate(sched, max_steps, move || {
            let rec = LogRecorder::new(7, sh2.clone());
            let (wrapped, handle): (Option<Arc<dyn Recorder + Send + Sync>>, _) = if p.via_install {
                match RecoverableRecorder::new(rec).install() {
                    Ok(h) => (None, h),
                    Err(_) => panic!("install() failed although no global recorder was installed"),
                }
            } else {
                let (w, h) = RecoverableRecorder::new(rec).__verif_build();
                (Some(Arc::new(w) as Arc<dyn Recorder + Send + Sync>), h)
            };
            let kept: Arc<Mutex<Vec<Box<dyn std::any::Any + Send>>>> = Arc::new(Mutex::new(vec![]));
            let mut hs = vec![];
            for (i, ems) in p.emitters.iter().enumerate() {
                let ems = ems.clone();
                let wrapped = wrapped.clone();
                let evs = ev2.clone();
                let log = log2.clone();
                let kept = kept.clone();
                let keep = p.keep_handles;
                let sh_e = sh2.clone();
                let via_install = p.via_install;
                hs.push(dsim::spawn(&format!("emitter{}", i + 1), move || {
                    let tid = dsim::tid();
                    // the recorder as the emitter sees it: the stand-alone wrapper, or whatever the
                    // facade dispatches to
                    fn with<T>(w: &Option<Arc<dyn Recorder + Send + Sync>>, f: impl FnOnce(&dyn Recorder) -> T) -> T {
                        match w {
                            Some(w) => f(&**w),
                            None => metrics::with_recorder(|r| f(r)),
                        }
                    }
                    for em in ems {
                        dsim::point("c20.emit");
                        let inv = dsim::step();
                        let key = Key::from_name("c20_metric");
                        let mut live = false;
                        let mut faulted = false;
                        let mut nested_lost = false;
                        match em {
                            Em::RegCounter => {
                                let h = with(&wrapped, |r| r.register_counter(&key, &MD));
                                let n0 = log.lock().unwrap().len();
                                h.increment(1);
                                live = log.lock().unwrap().len() > n0;
                                if keep {
                                    kept.lock().unwrap().push(Box::new(h));
                                }
                            }
                            Em::RegGauge => {
                                let h = with(&wrapped, |r| r.register_gauge(&key, &MD));
                                let n0 = log.lock().unwrap().len();
                                h.set(1.0);
                                live = log.lock().unwrap().len() > n0;
                                if keep {
                                    kept.lock().unwrap().push(Box::new(h));
                                }
                            }
                            Em::RegHistogram => {
                                let h = with(&wrapped, |r| r.register_histogram(&key, &MD));
                                let n0 = log.lock().unwrap().len();
                                h.record(1.0);
                                live = log.lock().unwrap().len() > n0;
                                if keep {
                                    kept.lock().unwrap().push(Box::new(h));
                                }
                            }
                            Em::RegCounterPanics => {
                                crate::doubles::set_flag(&sh_e.panic_next, tid);
                                let res = std::panic::catch_unwind(std::panic::AssertUnwindSafe(|| {
                                    let _ = with(&wrapped, |r| r.register_counter(&key, &MD));
                                }));
                                // (still armed = the call never entered the recorder: inert wrapper)
                                faulted = !crate::doubles::take_flag(&sh_e.panic_next, tid);
                                if let Err(p) = res {
                                    if !p.is::<crate::doubles::DoublePanic>() {
                                        std::panic::resume_unwind(p);
                                    }
                                }
                            }
                            Em::RegCounterReenters => {
                                crate::doubles::set_flag(&sh_e.reenter_next, tid);
                                let n0 = log.lock().unwrap().len();
                                let h = with(&wrapped, |r| r.register_counter(&key, &MD));
                                let fired = !crate::doubles::take_flag(&sh_e.reenter_next, tid);
                                drop(h);
                                // through the installed wrapper the recorder's own emission comes back to
                                // it while the recovery handle is alive at that moment; stand-alone it goes
                                // to the (absent) global recorder
                                let nested = log.lock().unwrap()[n0..].iter().filter(|e| e.tid == tid && e.name == "nested_emission" && e.op == "register_counter").count();
                                if fired && via_install && nested == 0 && !sh_e.finalised.load(Ordering::SeqCst) {
                                    nested_lost = true;
                                }
                            }
                            Em::DescCounter => with(&wrapped, |r| r.describe_counter(KeyName::from_const_str("c20_metric"), None, "d".into())),
                            Em::DescGauge => with(&wrapped, |r| r.describe_gauge(KeyName::from_const_str("c20_metric"), None, "d".into())),
                            Em::DescHistogram => with(&wrapped, |r| r.describe_histogram(KeyName::from_const_str("c20_metric"), None, "d".into())),
                        }
                        let ret = dsim::step();
                        let l = log.lock().unwrap();
                        let reached = l.iter().any(|e| e.tid == tid && e.step >= inv && e.step <= ret && (e.op.starts_with("register") || e.op.starts_with("describe")));
                        drop(l);
                        evs.lock().unwrap().push(EmEv { tid, inv, ret, reached, handle_live: live, faulted, nested_lost });
                    }
                }));
            }
            let rc = rc2.clone();
            let sh = sh2.clone();
            let recover = p.recover;
            let delay = p.delay;
            hs.push(dsim::spawn("recoverer", move || {
                for _ in 0..delay {
                    dsim::point("c20.delay");
                }
                let inv = dsim::step();
                if recover {
                    let r = handle.into_inner();
                    // the instant into_inner returns: nothing may be executing inside the recorder
                    let inflight = sh.in_flight.load(Ordering::SeqCst);
                    sh.finalised.store(true, Ordering::SeqCst);
                    let ret = dsim::step();
                    *rc.lock().unwrap() = (inv, ret, inflight, r.intact() && r.id == 7);
                    dsim::point("c20.recovered");
                    drop(r);
                } else {
                    drop(handle);
                    let ret = dsim::step();
                    *rc.lock().unwrap() = (inv, ret, 0, true);
                }
            }));
            for h in hs {
                h.join();
            }
            kept.lock().unwrap().clear();
            drop(wrapped);
            if p.install_fails {
                // a global recorder already exists: the wrapper installed above, or a no-op one now
                if !p.via_install {
                    let _ = metrics::set_global_recorder(metrics::NoopRecorder);
                }
                let sh9 = Shared::new(log2.clone());
                let res = RecoverableRecorder::new(LogRecorder::new(9, sh9.clone())).install();
                let verdict = match res {
                    Ok(_) => Some("install() succeeded although a global recorder was already installed".to_string()),
                    Err(e) => {
                        let r = e.into_inner();
                        if r.id != 9 || !r.intact() {
                            Some(format!("failed install handed back recorder id {} intact={}", r.id, r.intact()))
                        } else if sh9.drops.load(Ordering::SeqCst) != 0 {
                            Some("the recorder was dropped by the library before being handed back".to_string())
                        } else {
                            drop(r);
                            if sh9.drops.load(Ordering::SeqCst) != 1 {
                                Some(format!("recorder drop count {} after the caller dropped it", sh9.drops.load(Ordering::SeqCst)))
                            } else {
                                None
                            }
                        }
                    }
                };
                if let Some(d) = verdict {
                    log2.lock().unwrap().push(crate::doubles::Ev { rec: 99, tid: 0, step: 0, op: "install-fails-verdict".into(), name: d, labels: vec![], level: String::new(), target: String::new(), module: None, unit: None, desc: String::new(), value: String::new(), in_scope: true, finalised: false });
                }
            }
        });
        metrics::__verif_reset_global_recorder();
        let mut rep = RunReport::ok(sim);
        let simr = rep.sim.as_ref().unwrap();
        let evs = evs.lock().unwrap().clone();
        let rc = *recov.lock().unwrap();
        let l = log.lock().unwrap().clone();
        let mut v = None;
        if !simr.panics.is_empty() {
            v = violation("panic", format!("{:?}", simr.panics));
        } else if simr.end == dsim::End::Deadlock || simr.end == dsim::End::StepBudget {
            v = violation("recover-never-returns", format!("run ended {:?}: into_inner/handle drop did not complete although all emitters are finite", simr.end));
        } else {
            if let Some(e) = l.iter().find(|e| e.op == "install-fails-verdict") {
                v = violation("failed-install-recorder-not-intact", e.name.clone());
            }
            if v.is_none() && plan.recover && rc.2 != 0 {
                v = violation("in-flight-at-recovery", format!("into_inner returned at step {} while {} call(s) were executing inside the recorder", rc.1, rc.2));
            }
            if v.is_none() && !rc.3 {
                v = violation("recovered-recorder-not-intact", "into_inner returned a different or corrupted recorder".into());
            }
            if v.is_none() {
                if let Some(e) = l.iter().find(|e| e.finalised && (e.op.starts_with("register") || e.op.starts_with("describe"))) {
                    v = violation("call-after-finalisation", format!("{} by t{} at step {} entered the recorder after its finalisation began", e.op, e.tid, e.step));
                }
            }
            for e in &evs {
                if v.is_some() {
                    break;
                }
                if e.nested_lost && e.ret < rc.0 {
                    v = violation("nested-emission-lost-while-live", format!("t{} (steps {}..{}): the wrapped recorder emitted a metric of its own through the installed wrapper while the recovery handle was alive, and it was dropped", e.tid, e.inv, e.ret));
                }
                if e.ret < rc.0 && !e.reached && !e.faulted {
                    v = violation("emission-lost-while-live", format!("emission by t{} (steps {}..{}) completed before recovery started at {} but never reached the recorder", e.tid, e.inv, e.ret, rc.0));
                }
                if e.inv > rc.1 && (e.reached || e.handle_live) {
                    // structural signature: the handle was dropped (not into_inner) while some other
                    // call was executing inside the recorder, and that call was still inside when
                    // this late emission upgraded its weak reference
                    // (directly or through a chain of overlapping calls that each kept the strong count up)
                    let mut frontier = 0u64;
                    for o in evs.iter().filter(|o| (o.reached || o.faulted) && o.inv < rc.1) {
                        frontier = frontier.max(o.ret);
                    }
                    loop {
                        let mut nf = frontier;
                        for o in evs.iter().filter(|o| (o.reached || o.faulted) && o.inv < frontier && !(o.tid == e.tid && o.inv == e.inv)) {
                            nf = nf.max(o.ret);
                        }
                        if nf == frontier {
                            break;
                        }
                        frontier = nf;
                    }
                    let held_open = !plan.recover && e.inv < frontier;
                    let sig = if held_open { " sig:handle-dropped-while-call-in-flight" } else { "" };
                    v = violation("emission-after-recovery", format!("emission by t{} invoked at {} after recovery completed at {} still reached the recorder (reached={}, live handle={}){}", e.tid, e.inv, rc.1, e.reached, e.handle_live, sig));
                }
                if !e.reached && e.handle_live {
                    v = violation("inert-handle-not-inert", format!("registration by t{} did not reach the recorder but returned a live handle", e.tid));
                }
            }
            let drops = shared.drops.load(Ordering::SeqCst);
            if v.is_none() && drops != 1 {
                v = violation("drop-count", format!("wrapped recorder dropped {} times", drops));
            }
        }
        rep.observations = format!("evs={:?} rc={:?} log={}", evs, rc, l.len());
        rep.history_hash = crate::util::hash_str(&rep.observations);
        rep.count("emissions", evs.len() as u64);
        rep.count("emissions_reached", evs.iter().filter(|e| e.reached).count() as u64);
        rep.count("emissions_inert", evs.iter().filter(|e| !e.reached).count() as u64);
        rep.count("max_in_flight", shared.max_in_flight.load(Ordering::SeqCst) as u64);
        rep.violation = v;
        rep
    }
    fn shrink(&self, p: &Plan) -> Vec<Plan> {
        let mut out = vec![];
        if p.install_fails {
            out.push(Plan { install_fails: false, ..p.clone() });
        }
        if p.via_install {
            out.push(Plan { via_install: false, ..p.clone() });
        }
        if p.keep_handles {
            out.push(Plan { keep_handles: false, ..p.clone() });
        }
        if p.busy_inside > 0 {
            out.push(Plan { busy_inside: 0, ..p.clone() });
        }
        if p.slow_inside_ms > 0 {
            out.push(Plan { slow_inside_ms: 0, ..p.clone() });
        }
        if p.emitters.len() > 1 {
            for i in 0..p.emitters.len() {
                let mut q = p.clone();
                q.emitters.remove(i);
                out.push(q);
            }
        }
        for i in 0..p.emitters.len() {
            for j in 0..p.emitters[i].len() {
                if p.emitters[i].len() > 1 {
                    let mut q = p.clone();
                    q.emitters[i].remove(j);
                    out.push(q);
                }
            }
        }
        if p.delay > 0 {
            let mut q = p.clone();
            q.delay -= 1;
            out.push(q);
        }
        out
    }
    fn real_components(&self) -> Vec<&'static str> {
        vec!["metrics_util::RecoverableRecorder::{new,build,install}", "WeakRecorder (all six Recorder methods)", "RecoveryHandle::{into_inner, drop}", "metrics::set_global_recorder / with_recorder (in the via_install profile)"]
    }
    fn stub_components(&self) -> Vec<&'static str> {
        vec!["thread scheduler (dsim)", "wrapped recorder double (counts calls in flight, finalisation flag, drop counter)", "the global recorder cell is put back to uninstalled between runs through the guarded hook __verif_reset_global_recorder"]
    }
}
