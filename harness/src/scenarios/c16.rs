//! C16 — the sampling reservoir reports true counts and favours no stream position.
//! Real `AtomicSamplingReservoir`; atomics and the swap mutex are sync points, the per-thread
//! generator is seeded from the run (guarded seam in reservoir.rs).

use crate::framework::*;
use dsim::Rng;
use metrics_util::storage::reservoir::AtomicSamplingReservoir;
use serde::{Deserialize, Serialize};
use std::collections::{BTreeMap, BTreeSet};
use std::sync::{Arc, Mutex};

#[derive(Clone, Debug, Serialize, Deserialize, PartialEq)]
pub enum Op {
    Push,
    Drain,
    IsEmpty,
    /// fault: the closure handed to consume() panics after it looked at the drain (caught)
    DrainPanic,
}

#[derive(Clone, Debug, Serialize, Deserialize)]
pub struct Plan {
    pub capacity: usize,
    /// thread 0 of this list runs alone first (sequential cycles), then the rest run concurrently
    pub sequential: Vec<Op>,
    pub concurrent: Vec<Vec<Op>>,
}

#[derive(Clone, Debug)]
enum Res {
    Push(f64),
    /// `cstart`: the step at which the drain closure was entered (the side swap is behind it)
    /// `rates_later`: sample_rate() read again after the first value was taken and after the last
    Drain { values: Vec<f64>, rate: f64, len_hint: usize, cstart: u64, rates_later: (f64, f64) },
    Empty(bool),
    /// the consume closure was made to panic
    DrainPanicked,
    /// consume() itself panicked on its poisoned swap lock (what the shipped code does after a
    /// panicking closure)
    Poisoned,
}

#[derive(Clone, Debug)]
struct Ev {
    tid: u32,
    inv: u64,
    ret: u64,
    res: Res,
    phase: u8,
}

pub struct C16Reservoir;
struct ClosurePanic;

fn do_op(res: &AtomicSamplingReservoir, op: &Op, tid: u32, seq: &mut u32) -> Res {
    match op {
        Op::Push => {
            *seq += 1;
            let v = (tid as f64) * 100_000.0 + *seq as f64;
            res.push(v);
            Res::Push(v)
        }
        Op::Drain => {
            let mut values = vec![];
            let mut rate = 0.0;
            let mut len_hint = 0;
            let mut cstart = 0;
            let mut rates_later = (0.0, 0.0);
            let r = std::panic::catch_unwind(std::panic::AssertUnwindSafe(|| {
                res.consume(|d| {
                    cstart = dsim::step();
                    dsim::point("c16.in_closure");
                    rate = d.sample_rate();
                    len_hint = d.len();
                    let mut d = d;
                    if let Some(v) = d.next() {
                        values.push(v);
                    }
                    rates_later.0 = d.sample_rate();
                    for v in d.by_ref() {
                        values.push(v);
                    }
                    rates_later.1 = d.sample_rate();
                })
            }));
            match r {
                Ok(()) => Res::Drain { values, rate, len_hint, cstart, rates_later },
                Err(p) => {
                    let msg = p.downcast_ref::<String>().cloned().or_else(|| p.downcast_ref::<&str>().map(|s| s.to_string())).unwrap_or_default();
                    if msg.contains("PoisonError") {
                        Res::Poisoned
                    } else {
                        std::panic::resume_unwind(p)
                    }
                }
            }
        }
        Op::DrainPanic => {
            let r = std::panic::catch_unwind(std::panic::AssertUnwindSafe(|| {
                res.consume(|d| {
                    let _ = d.len();
                    let mut it = d.into_iter();
                    let _ = it.next();
                    std::panic::resume_unwind(Box::new(ClosurePanic));
                })
            }));
            match r {
                Err(p) if p.is::<ClosurePanic>() => Res::DrainPanicked,
                Err(p) => {
                    let msg = p.downcast_ref::<String>().cloned().or_else(|| p.downcast_ref::<&str>().map(|s| s.to_string())).unwrap_or_default();
                    if msg.contains("PoisonError") {
                        Res::Poisoned
                    } else {
                        std::panic::resume_unwind(p)
                    }
                }
                Ok(()) => Res::DrainPanicked,
            }
        }
        Op::IsEmpty => Res::Empty(res.is_empty()),
    }
}

impl Scenario for C16Reservoir {
    type Plan = Plan;
    fn property(&self) -> &'static str {
        "C16"
    }
    fn name(&self) -> &'static str {
        "reservoir"
    }
    fn horizon(&self) -> u64 {
        300
    }
    fn plan(&self, r: &mut Rng, tier: Tier) -> Plan {
        let capacity = *r.pick(&[0usize, 1, 1, 2, 2, 3, 8, 1024]);
        let mut sequential = vec![];
        let cycles = r.range(1, 3);
        for _ in 0..cycles {
            let n = match r.below(4) {
                0 => 0,
                1 => capacity.min(6) as u64,
                2 => r.range(1, (capacity as u64).clamp(1, 6)),
                _ => (capacity as u64).min(6) + r.range(1, 4),
            };
            for _ in 0..n {
                sequential.push(Op::Push);
            }
            if r.chance(200) {
                sequential.push(Op::IsEmpty);
            }
            sequential.push(Op::Drain);
            if r.chance(150) {
                sequential.push(Op::Drain);
            }
        }
        // "panicking closure" profile: sequential only (the shipped code poisons its swap lock, so
        // every later consume() panics; what must never happen is that a later drain hands out
        // values from before the panicking one)
        if r.chance(60) {
            let mut sequential = vec![];
            for _ in 0..r.range(1, 5) {
                sequential.push(Op::Push);
            }
            sequential.push(Op::DrainPanic);
            for _ in 0..r.below(4) {
                sequential.push(Op::Push);
            }
            sequential.push(Op::Drain);
            sequential.push(Op::Drain);
            return Plan { capacity: capacity.max(1), sequential, concurrent: vec![] };
        }
        let mut concurrent = vec![];
        if r.chance(600) {
            let np = r.range(1, 2);
            let max = if tier == Tier::Thorough { 8 } else { 5 };
            for _ in 0..np {
                concurrent.push((0..r.range(1, max)).map(|_| Op::Push).collect());
            }
            concurrent.push((0..r.range(1, 3)).map(|_| if r.chance(850) { Op::Drain } else { Op::IsEmpty }).collect());
            // sometimes a second consumer: consume() calls from two threads must serialise
            if r.chance(300) {
                concurrent.push((0..r.range(1, 2)).map(|_| Op::Drain).collect());
            }
        }
        Plan { capacity, sequential, concurrent }
    }
    fn execute(&self, plan: &Plan, sched: &SchedSpec) -> RunReport {
        let hist: Arc<Mutex<Vec<Ev>>> = Arc::new(Mutex::new(vec![]));
        let p = plan.clone();
        let h2 = hist.clone();
        let sim = simulate(sched, 80_000, move || {
            let res = Arc::new(AtomicSamplingReservoir::new(p.capacity));
            let mut seq = 0u32;
            for op in &p.sequential {
                dsim::point("c16.seq");
                let inv = dsim::step();
                let r = do_op(&res, op, 0, &mut seq);
                let ret = dsim::step();
                h2.lock().unwrap().push(Ev { tid: 0, inv, ret, res: r, phase: 0 });
            }
            let mut hs = vec![];
            for (i, ops) in p.concurrent.iter().enumerate() {
                let ops = ops.clone();
                let res = res.clone();
                let hist = h2.clone();
                hs.push(dsim::spawn(&format!("w{}", i + 1), move || {
                    let tid = dsim::tid();
                    let mut seq = 0u32;
                    for op in ops {
                        dsim::point("c16.op");
                        let inv = dsim::step();
                        let r = do_op(&res, &op, tid, &mut seq);
                        let ret = dsim::step();
                        hist.lock().unwrap().push(Ev { tid, inv, ret, res: r, phase: 1 });
                    }
                }));
            }
            for h in hs {
                h.join();
            }
            // two quiescent drains: everything still inside comes out, then nothing
            for _ in 0..3 {
                let inv = dsim::step();
                let r = do_op(&res, &Op::Drain, 0, &mut seq);
                let ret = dsim::step();
                h2.lock().unwrap().push(Ev { tid: 0, inv, ret, res: r, phase: 2 });
            }
        });
        let mut rep = RunReport::ok(sim);
        let simr = rep.sim.as_ref().unwrap();
        let h = hist.lock().unwrap().clone();
        let mut v = None;
        if !simr.panics.is_empty() {
            v = violation("panic", format!("capacity {}: {:?}", plan.capacity, simr.panics));
        } else if simr.end == dsim::End::Completed {
            v = check(plan, &h);
        }
        rep.observations = format!("{:?}", h);
        rep.history_hash = crate::util::hash_str(&rep.observations);
        rep.count("ops", h.len() as u64);
        rep.count("drains", h.iter().filter(|e| matches!(e.res, Res::Drain { .. })).count() as u64);
        rep.violation = v;
        rep
    }
    fn shrink(&self, p: &Plan) -> Vec<Plan> {
        let mut out = vec![];
        for i in 0..p.sequential.len() {
            let mut q = p.clone();
            q.sequential.remove(i);
            out.push(q);
        }
        if !p.concurrent.is_empty() {
            let mut q = p.clone();
            q.concurrent.clear();
            out.push(q);
            for i in 0..p.concurrent.len() {
                let mut q = p.clone();
                q.concurrent.remove(i);
                out.push(q);
                for j in 0..p.concurrent[i].len() {
                    if p.concurrent[i].len() > 1 {
                        let mut q = p.clone();
                        q.concurrent[i].remove(j);
                        out.push(q);
                    }
                }
            }
        }
        for c in [0usize, 1, 2, 3, 8] {
            if c < p.capacity {
                let mut q = p.clone();
                q.capacity = c;
                out.push(q);
            }
        }
        out
    }
    fn real_components(&self) -> Vec<&'static str> {
        vec!["metrics_util::storage::reservoir::AtomicSamplingReservoir::{new,push,consume,is_empty}", "Reservoir::{push,drain}", "Drain iterator, sample_rate, Drop"]
    }
    fn stub_components(&self) -> Vec<&'static str> {
        vec!["thread scheduler (dsim)", "seed of the per-thread Xoshiro generator (from the run seed instead of OsRng)"]
    }
}

fn check(plan: &Plan, h: &[Ev]) -> Option<Violation> {
    let cap = plan.capacity;
    // ---------- sequential phase (phase 0) and the quiescent tail are exact
    let mut pending: Vec<f64> = vec![]; // pushed since the last drain, sequentially
    let mut poisoned_profile = false;
    let mut exact = true; // exactness holds until the concurrent phase starts and after it settled
    let pushes: BTreeMap<u64, (&Ev, f64)> = h.iter().filter_map(|e| if let Res::Push(v) = e.res { Some((v.to_bits(), (e, v))) } else { None }).collect();
    let mut yielded: BTreeSet<u64> = BTreeSet::new();
    let drains: Vec<&Ev> = h.iter().filter(|e| matches!(e.res, Res::Drain { .. })).collect();
    for e in h.iter().filter(|e| e.phase == 0) {
        match &e.res {
            Res::Push(v) => pending.push(*v),
            Res::DrainPanicked => {
                // that interval is over: whatever it held may be gone, and must never come back
                pending.clear();
                poisoned_profile = true;
            }
            Res::Poisoned => {}
            Res::Empty(b) if poisoned_profile => {
                let _ = b;
            }
            Res::Empty(b) => {
                if *b != pending.is_empty() {
                    return violation("is-empty-wrong", format!("is_empty() = {} with {} values pushed since the last drain", b, pending.len()));
                }
            }
            Res::Drain { values, rate, len_hint, rates_later, .. } => {
                if rates_later.0.to_bits() != rate.to_bits() || rates_later.1.to_bits() != rate.to_bits() {
                    return violation("sample-rate-unstable", format!("one drain reported sample rate {} before iterating, {} after the first value and {} after the last ({} values yielded)", rate, rates_later.0, rates_later.1, values.len()));
                }
                if values.len() > cap {
                    return violation("over-capacity", format!("drain yielded {} values, capacity {}", values.len(), cap));
                }
                if *len_hint != values.len() {
                    return violation("exact-size-wrong", format!("Drain::len() said {}, iterator yielded {}", len_hint, values.len()));
                }
                let want = pending.len().min(cap);
                if values.len() != want {
                    return violation("drain-count", format!("{} values pushed since the previous drain (capacity {}), drain yielded {} instead of {}", pending.len(), cap, values.len(), want));
                }
                let mut seen = BTreeSet::new();
                for x in values {
                    if !pending.iter().any(|p| p.to_bits() == x.to_bits()) {
                        return violation("drain-foreign-value", format!("sequential drain yielded {} which was not pushed since the previous drain (pending {:?})", x, pending));
                    }
                    if !seen.insert(x.to_bits()) {
                        return violation("drain-duplicate", format!("drain yielded {} twice", x));
                    }
                    yielded.insert(x.to_bits());
                }
                let want_rate = if pending.is_empty() { 1.0 } else { values.len() as f64 / pending.len() as f64 };
                if (rate - want_rate).abs() > 1e-12 {
                    return violation("sample-rate", format!("sample_rate() = {} but {} of {} pushed values were yielded", rate, values.len(), pending.len()));
                }
                pending.clear();
            }
        }
    }
    let _ = &mut exact;
    // ---------- concurrent phase + tail: relaxed, classified
    let conc: Vec<&Ev> = h.iter().filter(|e| e.phase >= 1).collect();
    let conc_pushes = conc.iter().filter(|e| matches!(e.res, Res::Push(_))).count();
    let mut prev_drain_inv: u64 = drains.iter().filter(|d| d.phase == 0).map(|d| d.inv).max().unwrap_or(0);
    let mut all_conc_yield: Vec<u64> = vec![];
    // (in the order in which the drains actually took place: consume() calls from two threads are
    // serialised by the reservoir's swap lock, and the closure runs under it)
    let mut conc_drains: Vec<&&Ev> = conc.iter().filter(|e| matches!(e.res, Res::Drain { .. })).collect();
    conc_drains.sort_by_key(|e| if let Res::Drain { cstart, .. } = &e.res { if *cstart == 0 { e.ret } else { *cstart } } else { e.ret });
    // Structural signature of the known defect (push || consume): a *culprit* push is one that may
    // have read which side is active before some drain swapped the sides and that finished after
    // that drain began (invoked before the drain's closure was entered, returned after the drain
    // was invoked). Such a push can be lost, surface late, leave a never-written slot behind, or
    // overwrite the slot of another push it overlaps. A push invoked after the closure was entered
    // goes to the other side and is safe in the shipped algorithm, unless a culprit overlaps it.
    let all_drains: Vec<(u64, u64, u64)> = h.iter().filter_map(|e| if let Res::Drain { cstart, .. } = &e.res { Some((e.inv, if *cstart == 0 { e.ret } else { *cstart }, e.ret)) } else { None }).collect();
    let culprit = |q: &Ev| matches!(q.res, Res::Push(_)) && all_drains.iter().any(|(i, c, _)| q.inv < *c && q.ret > *i);
    let any_culprit = h.iter().any(|q| culprit(q));
    let overlaps_any_drain = |pe: &Ev| culprit(pe) || h.iter().any(|q| culprit(q) && q.inv < pe.ret && q.ret > pe.inv);
    let some_push_overlaps = |_d: &Ev| any_culprit;
    for d in &conc_drains {
        if let Res::Drain { values, rate, len_hint, rates_later, .. } = &d.res {
            if rates_later.0.to_bits() != rate.to_bits() || rates_later.1.to_bits() != rate.to_bits() {
                return violation("sample-rate-unstable", format!("one drain reported sample rate {} before iterating, {} after the first value and {} after the last ({} values yielded)", rate, rates_later.0, rates_later.1, values.len()));
            }
            if values.len() > cap {
                return violation("over-capacity", format!("drain yielded {} values, capacity {}", values.len(), cap));
            }
            if *len_hint != values.len() {
                return violation("exact-size-wrong", format!("Drain::len() said {}, iterator yielded {}", len_hint, values.len()));
            }
            // yielded / pushed: zero only when nothing was yielded (e.g. capacity 0)
            if !(*rate >= 0.0 && *rate <= 1.0) || (*rate == 0.0 && !values.is_empty()) {
                return violation("sample-rate-range", format!("sample_rate() = {} with {} values yielded", rate, values.len()));
            }
            if values.len() < cap && (*rate - 1.0).abs() > 1e-12 && !values.is_empty() {
                // fewer than capacity yielded means nothing was sampled away
                return violation("sample-rate", format!("drain yielded {} (< capacity {}) values but reports sample rate {}", values.len(), cap, rate));
            }
            for x in values {
                let bits = x.to_bits();
                match pushes.get(&bits) {
                    None => {
                        return violation("drain-fabricated-value", format!("drain by t{} (steps {}..{}) yielded {} which nobody pushed{}", d.tid, d.inv, d.ret, x, if some_push_overlaps(d) { " sig:push-overlaps-drain" } else { "" }));
                    }
                    Some((pe, _)) => {
                        if pe.inv > d.ret {
                            return violation("drain-future-value", format!("drain returned at {} yielded a value pushed at {}", d.ret, pe.inv));
                        }
                        if yielded.contains(&bits) || all_conc_yield.contains(&bits) {
                            // the shipped defect re-yields a value only out of a slot that ANOTHER push has
                            // claimed and not yet written while this drain reads it: that push is in
                            // flight during this drain. A value that comes out twice with no other
                            // push in flight during the second drain is not that defect.
                            let other_in_flight = h.iter().any(|q| matches!(q.res, Res::Push(v) if v.to_bits() != bits) && q.inv < d.ret && q.ret > d.inv);
                            return violation("drain-duplicate", format!("value {} was yielded by two drains{}", x, if other_in_flight { " sig:push-overlaps-drain" } else { "" }));
                        }
                        if pe.ret < prev_drain_inv {
                            return violation("drain-stale-value", format!("drain by t{} (steps {}..{}) yielded {} whose push completed at {} before the previous drain began at {}{}", d.tid, d.inv, d.ret, x, pe.ret, prev_drain_inv, if overlaps_any_drain(pe) { " sig:push-overlaps-drain" } else { "" }));
                        }
                        all_conc_yield.push(bits);
                    }
                }
            }
            prev_drain_inv = d.inv;
        }
    }
    // conservation at quiescence: if at most `cap` values were pushed in the whole concurrent
    // phase, nothing may be sampled away: all of them must have come out by the end.
    if conc_pushes <= cap {
        for e in conc.iter() {
            if let Res::Push(v) = e.res {
                if !all_conc_yield.contains(&v.to_bits()) {
                    return violation("drain-lost-value", format!("{} values (<= capacity {}) were pushed concurrently with drains; {} never came out of any drain{}", conc_pushes, cap, v, if overlaps_any_drain(e) { " sig:push-overlaps-drain" } else { "" }));
                }
            }
        }
    }
    // last quiescent drain must be empty
    if let Some(Res::Drain { values, .. }) = h.last().map(|e| &e.res) {
        if !values.is_empty() {
            return violation("drain-not-empty-at-rest", format!("third consecutive quiescent drain still yielded {:?}", values));
        }
    }
    None
}

// ---------------------------------------------------------------------------------------------

#[derive(Clone, Debug, Serialize, Deserialize)]
pub struct UPlan {
    pub capacity: usize,
    pub n: usize,
    pub trials: u32,
    /// positions start..start+len of the stream arrive as ONE `record_many(value, len)` call
    /// through the histogram interface (copies of one value), the rest by single pushes
    #[serde(default)]
    pub batch: Option<(usize, usize)>,
}

pub struct C16Uniformity;

impl Scenario for C16Uniformity {
    type Plan = UPlan;
    fn property(&self) -> &'static str {
        "C16"
    }
    fn name(&self) -> &'static str {
        "uniformity"
    }
    fn plan(&self, r: &mut Rng, tier: Tier) -> UPlan {
        let capacity = r.range(1, 4) as usize;
        let n = capacity + r.range(1, 6) as usize;
        let batch = if r.chance(400) {
            let start = r.below(n as u64 - 1) as usize;
            Some((start, r.range(2, (n - start) as u64) as usize))
        } else {
            None
        };
        UPlan { capacity, n, trials: if tier == Tier::Thorough { 40_000 } else { 20_000 }, batch }
    }
    fn rule(&self) -> &'static str {
        "one run = one (capacity, stream length) cell: `trials` independent push-n-then-drain trials on one reservoir with the thread generator seeded from the run; distinct = distinct hash of the per-position retention counts; every cell is non-trivial (n > capacity)"
    }
    fn execute(&self, plan: &UPlan, sched: &SchedSpec) -> RunReport {
        let counts: Arc<Mutex<Vec<u64>>> = Arc::new(Mutex::new(vec![0; plan.n]));
        let bad: Arc<Mutex<Option<String>>> = Arc::new(Mutex::new(None));
        let p = plan.clone();
        let (c2, b2) = (counts.clone(), bad.clone());
        let sim = simulate(sched, 10_000, move || {
            dsim::passthrough(true);
            let res = AtomicSamplingReservoir::new(p.capacity);
            for _ in 0..p.trials {
                let mut i = 0;
                while i < p.n {
                    match p.batch {
                        Some((start, len)) if i == start => {
                            metrics::HistogramFn::record_many(&res, (i + 1) as f64, len);
                            i += len;
                        }
                        _ => {
                            res.push((i + 1) as f64);
                            i += 1;
                        }
                    }
                }
                let mut got = vec![];
                let mut rate = 0.0;
                res.consume(|d| {
                    rate = d.sample_rate();
                    got.extend(d);
                });
                if got.len() != p.capacity {
                    *b2.lock().unwrap() = Some(format!("drain yielded {} values, expected capacity {}", got.len(), p.capacity));
                    break;
                }
                if (rate - p.capacity as f64 / p.n as f64).abs() > 1e-12 {
                    *b2.lock().unwrap() = Some(format!("sample_rate {} != {}/{}", rate, p.capacity, p.n));
                    break;
                }
                let mut c = c2.lock().unwrap();
                for g in got {
                    let i = g as usize;
                    if i == 0 || i > p.n {
                        *b2.lock().unwrap() = Some(format!("drain yielded foreign value {}", g));
                    } else {
                        c[i - 1] += 1;
                    }
                }
            }
            dsim::passthrough(false);
        });
        let mut rep = RunReport::ok(sim);
        let simr = rep.sim.as_ref().unwrap();
        let c = counts.lock().unwrap().clone();
        let mut v = None;
        if !simr.panics.is_empty() {
            v = violation("panic", format!("{:?}", simr.panics));
        } else if let Some(b) = bad.lock().unwrap().clone() {
            v = violation("uniformity-trial-broken", b);
        } else {
            let t = plan.trials as f64;
            let pr = plan.capacity as f64 / plan.n as f64;
            let sigma = (t * pr * (1.0 - pr)).sqrt();
            for (i, k) in c.iter().enumerate() {
                // the copies of a batch are counted under the batch's first position; their
                // retentions are correlated, so the bound assumes the worst (fully correlated)
                let mult = match plan.batch {
                    Some((start, len)) if i == start => len as f64,
                    Some((start, len)) if i > start && i < start + len => 0.0,
                    _ => 1.0,
                };
                let dev = (*k as f64 - t * pr * mult).abs();
                if dev > 6.0 * sigma * mult.max(1.0) {
                    v = violation(
                        "retention-not-uniform",
                        format!("capacity {} stream {} (batch {:?}): position {} retained {} times in {} trials, expected {:.0} +- {:.0} (6 sigma); all positions: {:?}", plan.capacity, plan.n, plan.batch, i, k, plan.trials, t * pr * mult, 6.0 * sigma * mult.max(1.0), c),
                    );
                    break;
                }
            }
        }
        rep.observations = format!("{:?}", c);
        rep.history_hash = crate::util::hash_str(&rep.observations);
        rep.count("trials", plan.trials as u64);
        // this scenario has no schedule dimension: distinctness is per retention table
        if let Some(s) = rep.sim.as_mut() {
            s.switches = s.switches.max(1);
        }
        rep.violation = v;
        rep
    }
    fn shrink(&self, p: &UPlan) -> Vec<UPlan> {
        let mut out = vec![];
        if p.capacity > 1 {
            out.push(UPlan { capacity: p.capacity - 1, n: p.n - 1, trials: p.trials, batch: None });
        }
        if p.n > p.capacity + 1 {
            out.push(UPlan { capacity: p.capacity, n: p.n - 1, trials: p.trials, batch: None });
        }
        out
    }
    fn real_components(&self) -> Vec<&'static str> {
        vec!["AtomicSamplingReservoir push/consume, fastrand (thread-local Xoshiro256**)"]
    }
    fn stub_components(&self) -> Vec<&'static str> {
        vec!["generator seed (from the run seed through the guarded seam instead of OsRng)"]
    }
    fn assumptions(&self) -> Vec<&'static str> {
        vec!["uniformity is a statistical test: 6-sigma bound per position on 20 000+ trials per cell; with the fixed default seed the outcome is a deterministic function of the code"]
    }
}
