//! C07 — Prometheus output reports exactly what was recorded, each sample once.
//! Real `PrometheusRecorder`/`PrometheusHandle` (registry, generational storage, timestamped
//! buckets, distributions, formatting); recorders ∥ render ∥ run_upkeep ∥ describe. The output is
//! parsed by an independent strict text-format parser and compared with the recorded history.

use crate::framework::*;
use crate::oracles::promtext::{self, Family};
use dsim::Rng;
use metrics::{Key, KeyName, Label, Level, Metadata, Recorder, Unit};
use metrics_exporter_prometheus::{Matcher, PrometheusBuilder, PrometheusHandle};
use serde::{Deserialize, Serialize};
use std::collections::{BTreeMap, BTreeSet};
use std::sync::{Arc, Mutex};

static MD: Metadata<'static> = Metadata::new("c07", Level::INFO, None);

pub const NAMES: [&str; 5] = ["c_inc", "c_abs", "g_one", "h_sum", "h_bkt"];
pub const KEY_LABEL: [bool; 5] = [false, true, true, false, true];
const DESCS: [&str; 3] = ["first help", "second help", "third"];
pub const OVERRIDE_BUCKETS: [f64; 3] = [1.0, 2.0, 4.0];
pub const GLOBAL_BUCKETS: [f64; 2] = [2.0, 5.0];

pub fn key_of(m: usize, variant: u8) -> Key {
    if KEY_LABEL[m] {
        match variant % 2 {
            0 => Key::from_parts(NAMES[m], vec![Label::new("l", "k")]),
            _ => Key::from_parts(String::from(NAMES[m]), vec![Label::new(String::from("l"), String::from("k"))]),
        }
    } else {
        match variant % 2 {
            0 => Key::from_static_name(NAMES[m]),
            _ => Key::from_name(String::from(NAMES[m])),
        }
    }
}

#[derive(Clone, Debug, Serialize, Deserialize, PartialEq)]
pub enum Op {
    CInc(u64),
    CAbs(u64),
    GSet,
    HRec(usize, u8),
    Describe { m: usize, desc: usize, unit: bool },
    Render,
    Upkeep,
    /// the mock clock moves forward by this many seconds (summary windows roll: 3 x 20 s by default)
    Advance(u64),
}

#[derive(Clone, Debug, Serialize, Deserialize)]
pub struct Config {
    pub global_labels: Vec<(String, String)>,
    pub global_buckets: bool,
    pub custom_quantiles: bool,
    pub unit_suffix: bool,
}

#[derive(Clone, Debug, Serialize, Deserialize)]
pub struct Plan {
    pub cfg: Config,
    pub threads: Vec<Vec<Op>>,
    /// samples recorded into both histograms before the threads start (their sample buckets hold
    /// 64 values per block: 62..64 puts the run's records next to a block hand-over)
    #[serde(default)]
    pub hist_prefill: u32,
}

#[derive(Clone, Debug)]
pub struct Ev {
    pub tid: u32,
    pub inv: u64,
    pub ret: u64,
    pub op: Op,
    pub tag: u64,
    pub text: String,
}

pub fn build(cfg: &Config, clock: quanta::Clock, idle: Option<(metrics_util::MetricKindMask, std::time::Duration)>) -> (metrics_exporter_prometheus::PrometheusRecorder, PrometheusHandle) {
    let mut b = PrometheusBuilder::new();
    for (k, v) in &cfg.global_labels {
        b = b.add_global_label(k.clone(), v.clone());
    }
    if cfg.global_buckets {
        b = b.set_buckets(&GLOBAL_BUCKETS).unwrap();
    }
    if cfg.custom_quantiles {
        b = b.set_quantiles(&[0.5, 0.9]).unwrap();
    }
    b = b.set_buckets_for_metric(Matcher::Full("h_bkt".to_string()), &OVERRIDE_BUCKETS).unwrap();
    b = b.set_enable_unit_suffix(cfg.unit_suffix);
    if let Some((mask, d)) = idle {
        b = b.idle_timeout(mask, Some(d));
    }
    let rec = b.__verif_build_with_clock(clock);
    let h = rec.handle();
    (rec, h)
}

pub struct C07Prometheus;

impl Scenario for C07Prometheus {
    type Plan = Plan;
    fn property(&self) -> &'static str {
        "C07"
    }
    fn name(&self) -> &'static str {
        "prometheus"
    }
    fn horizon(&self) -> u64 {
        900
    }
    fn plan(&self, r: &mut Rng, tier: Tier) -> Plan {
        let mut gl = vec![];
        if r.chance(500) {
            gl.push(("l".to_string(), "glob".to_string()));
        }
        if r.chance(400) {
            gl.push(("env".to_string(), "e".to_string()));
        }
        let cfg = Config { global_labels: gl, global_buckets: r.chance(350), custom_quantiles: r.chance(300), unit_suffix: r.chance(400) };
        let max_ops = if tier == Tier::Thorough { 7 } else { 5 };
        let mut threads = vec![];
        let nrec = r.range(1, 3);
        for i in 0..nrec {
            let n = r.range(1, max_ops);
            threads.push(
                (0..n)
                    .map(|_| match r.below(12) {
                        0..=1 => Op::CInc(r.range(1, 5)),
                        2 => Op::CAbs(r.range(1, 40)),
                        3..=4 => Op::GSet,
                        5..=8 => Op::HRec(3 + r.below(2) as usize, r.range(1, 6) as u8),
                        9 => {
                            if i == 0 {
                                Op::Describe { m: r.below(5) as usize, desc: r.below(3) as usize, unit: r.chance(500) }
                            } else {
                                Op::HRec(3, r.range(1, 6) as u8)
                            }
                        }
                        10 => Op::Upkeep,
                        _ => Op::HRec(4, r.range(1, 6) as u8),
                    })
                    .collect(),
            );
        }
        for _ in 0..r.range(1, 2) {
            let n = r.range(1, 3);
            threads.push(
                (0..n)
                    .flat_map(|_| {
                        let mut v = vec![];
                        if r.chance(250) {
                            v.push(Op::Advance(*r.pick(&[1u64, 25, 61, 200])));
                        }
                        v.push(if r.chance(750) { Op::Render } else { Op::Upkeep });
                        v
                    })
                    .collect(),
            );
        }
        // (rarely a backlog of more than 32 blocks of 64 samples waiting for one drain)
        let hist_prefill = if r.chance(25) { 2100 } else { *r.pick(&[0u32, 0, 0, 61, 62, 63, 64, 127]) };
        Plan { cfg, threads, hist_prefill }
    }
    fn execute(&self, plan: &Plan, sched: &SchedSpec) -> RunReport {
        let hist: Arc<Mutex<Vec<Ev>>> = Arc::new(Mutex::new(vec![]));
        let p = plan.clone();
        let h2 = hist.clone();
        let sim = simulate(sched, 250_000, move || {
            let (clock, mock) = quanta::Clock::mock();
            let (rec, handle) = build(&p.cfg, clock.clone(), None);
            let rec = Arc::new(rec);
            if p.hist_prefill > 0 {
                dsim::passthrough(true);
                quanta::with_clock(&clock, || {
                    for m in 3..5usize {
                        for i in 0..p.hist_prefill {
                            rec.register_histogram(&key_of(m, i as u8), &MD).record(1.0);
                            h2.lock().unwrap().push(Ev { tid: 0, inv: 0, ret: 0, op: Op::HRec(m, 1), tag: 0, text: String::new() });
                        }
                    }
                });
                dsim::passthrough(false);
            }
            let mut hs = vec![];
            for (ti, ops) in p.threads.iter().enumerate() {
                let ops = ops.clone();
                let rec = rec.clone();
                let handle = handle.clone();
                let hist = h2.clone();
                let clock = clock.clone();
                let mock = mock.clone();
                hs.push(dsim::spawn(&format!("w{}", ti + 1), move || {
                    quanta::with_clock(&clock, || {
                        let tid = dsim::tid();
                        let mut seq = 0u64;
                        for op in ops {
                            dsim::point("c07.op");
                            seq += 1;
                            let tag = ((tid as u64) << 20 | seq) as f64;
                            let inv = dsim::step();
                            let mut text = String::new();
                            match &op {
                                Op::CInc(v) => rec.register_counter(&key_of(0, seq as u8), &MD).increment(*v),
                                Op::CAbs(v) => rec.register_counter(&key_of(1, seq as u8), &MD).absolute(*v),
                                Op::GSet => rec.register_gauge(&key_of(2, seq as u8), &MD).set(tag),
                                Op::HRec(m, v) => rec.register_histogram(&key_of(*m, seq as u8), &MD).record(*v as f64),
                                Op::Describe { m, desc, unit } => {
                                    let kn = KeyName::from_const_str(NAMES[*m]);
                                    let u = if *unit { Some(Unit::Seconds) } else { None };
                                    match m {
                                        0 | 1 => rec.describe_counter(kn, u, DESCS[*desc].into()),
                                        2 => rec.describe_gauge(kn, u, DESCS[*desc].into()),
                                        _ => rec.describe_histogram(kn, u, DESCS[*desc].into()),
                                    }
                                }
                                Op::Render => text = handle.render(),
                                Op::Upkeep => handle.run_upkeep(),
                                Op::Advance(s) => mock.increment(std::time::Duration::from_secs(*s)),
                            }
                            let ret = dsim::step();
                            hist.lock().unwrap().push(Ev { tid, inv, ret, op, tag: tag.to_bits(), text });
                        }
                    });
                }));
            }
            for h in hs {
                h.join();
            }
            quanta::with_clock(&clock, || {
                for _ in 0..2 {
                    let inv = dsim::step();
                    let text = handle.render();
                    h2.lock().unwrap().push(Ev { tid: 0, inv, ret: u64::MAX - 1, op: Op::Render, tag: 0, text });
                }
            });
        });
        let mut rep = RunReport::ok(sim);
        let simr = rep.sim.as_ref().unwrap();
        let h = hist.lock().unwrap().clone();
        let mut v = None;
        if !simr.panics.is_empty() {
            v = violation("panic", format!("{:?}", simr.panics));
        } else if simr.end == dsim::End::Completed {
            v = check(&plan.cfg, &h);
        }
        // observations without the HashMap-ordered text: sort lines
        let mut obs = String::new();
        for e in &h {
            let mut lines: Vec<&str> = e.text.lines().collect();
            lines.sort();
            obs.push_str(&format!("{}:{}-{}:{:?}:{:?};", e.tid, e.inv, e.ret, e.op, lines));
        }
        rep.history_hash = crate::util::hash_str(&obs);
        rep.observations = obs;
        rep.count("ops", h.len() as u64);
        rep.count("renders", h.iter().filter(|e| e.op == Op::Render).count() as u64);
        rep.violation = v;
        rep
    }
    fn shrink(&self, p: &Plan) -> Vec<Plan> {
        let mut out = vec![];
        if p.threads.len() > 1 {
            for i in 0..p.threads.len() {
                let mut q = p.clone();
                q.threads.remove(i);
                out.push(q);
            }
        }
        for i in 0..p.threads.len() {
            for j in 0..p.threads[i].len() {
                if p.threads[i].len() > 1 {
                    let mut q = p.clone();
                    q.threads[i].remove(j);
                    out.push(q);
                }
            }
        }
        if !p.cfg.global_labels.is_empty() {
            let mut q = p.clone();
            q.cfg.global_labels.pop();
            out.push(q);
        }
        if p.hist_prefill > 0 {
            let mut q = p.clone();
            q.hist_prefill = if p.hist_prefill > 64 { 63 } else { 0 };
            out.push(q);
        }
        for f in 0..3 {
            let mut q = p.clone();
            let c = match f {
                0 => std::mem::replace(&mut q.cfg.global_buckets, false),
                1 => std::mem::replace(&mut q.cfg.custom_quantiles, false),
                _ => std::mem::replace(&mut q.cfg.unit_suffix, false),
            };
            if c {
                out.push(q);
            }
        }
        out
    }
    fn real_components(&self) -> Vec<&'static str> {
        vec!["metrics_exporter_prometheus::{PrometheusBuilder, PrometheusRecorder, PrometheusHandle::render/run_upkeep}", "Registry + GenerationalAtomicStorage + Recency", "AtomicBucketInstant / AtomicBucket", "Distribution / DistributionBuilder / Histogram / RollingSummary", "formatting (key_to_parts, write_*_line)"]
    }
    fn stub_components(&self) -> Vec<&'static str> {
        vec!["thread scheduler (dsim)", "quanta clock (mock, advanced by the program's Advance steps)", "handle listings are sorted by key under the guard so that the render thread's lock order is seed-deterministic"]
    }
}

pub fn expected_labels(cfg: &Config, m: usize) -> BTreeSet<(String, String)> {
    let mut map: BTreeMap<String, String> = BTreeMap::new();
    for (k, v) in &cfg.global_labels {
        map.insert(k.clone(), v.clone());
    }
    if KEY_LABEL[m] {
        map.insert("l".into(), "k".into());
    }
    map.into_iter().collect()
}

pub fn is_histogram(cfg: &Config, m: usize) -> bool {
    m == 4 || (m == 3 && cfg.global_buckets)
}
pub fn buckets_of(cfg: &Config, m: usize) -> Vec<f64> {
    if m == 4 {
        OVERRIDE_BUCKETS.to_vec()
    } else if cfg.global_buckets {
        GLOBAL_BUCKETS.to_vec()
    } else {
        vec![]
    }
}

pub struct Series {
    pub value: Option<f64>,
    pub value_text: String,
    pub count: Option<u64>,
    pub sum: Option<f64>,
    pub buckets: Vec<(String, u64)>,
    pub quantiles: Vec<(String, f64)>,
}

/// Extract the single series of family `m` (this scenario has one series per family).
pub fn series_of(cfg: &Config, fam: &Family, m: usize) -> Result<Series, String> {
    let want = expected_labels(cfg, m);
    let mut s = Series { value: None, value_text: String::new(), count: None, sum: None, buckets: vec![], quantiles: vec![] };
    for smp in &fam.samples {
        let mut labels: BTreeSet<(String, String)> = smp.labels.iter().cloned().collect();
        let le = smp.labels.iter().find(|l| l.0 == "le").cloned();
        let q = smp.labels.iter().find(|l| l.0 == "quantile").cloned();
        if let Some(l) = &le {
            labels.remove(l);
        }
        if let Some(l) = &q {
            labels.remove(l);
        }
        if labels != want {
            return Err(format!("series {} carries labels {:?}, expected global labels overridden by key labels = {:?}", smp.name, labels, want));
        }
        let rest = smp.name.strip_prefix(NAMES[m]).unwrap_or("");
        let val: f64 = match smp.value.as_str() {
            "+Inf" => f64::INFINITY,
            "-Inf" => f64::NEG_INFINITY,
            x => x.parse().map_err(|_| format!("unparsable value {}", x))?,
        };
        if rest.starts_with("_bucket") {
            let le = le.ok_or("bucket sample without le label")?;
            s.buckets.push((le.1, val as u64));
        } else if rest.starts_with("_sum") {
            s.sum = Some(val);
        } else if rest.starts_with("_count") {
            s.count = Some(val as u64);
        } else if let Some(q) = q {
            s.quantiles.push((q.1, val));
        } else {
            if s.value.is_some() {
                return Err(format!("family {} has two plain samples", NAMES[m]));
            }
            s.value = Some(val);
            s.value_text = smp.value.clone();
        }
    }
    Ok(s)
}

fn check(cfg: &Config, h: &[Ev]) -> Option<Violation> {
    let renders: Vec<&Ev> = h.iter().filter(|e| e.op == Op::Render).collect();
    let metric_of = |op: &Op| -> Option<usize> {
        match op {
            Op::CInc(_) => Some(0),
            Op::CAbs(_) => Some(1),
            Op::GSet => Some(2),
            Op::HRec(m, _) => Some(*m),
            _ => None,
        }
    };
    let describes: Vec<&Ev> = h.iter().filter(|e| matches!(e.op, Op::Describe { .. })).collect();
    let mut prev: Vec<(u64, u64, BTreeMap<usize, u64>)> = vec![]; // (inv, ret, monotone quantities)
    let nr = renders.len();
    for (ri, r) in renders.iter().enumerate() {
        let fams = match promtext::parse(&r.text) {
            Ok(f) => f,
            Err(e) => return violation("render-malformed", format!("render by t{} does not parse: {}", r.tid, e)),
        };
        let quiescent = ri + 2 >= nr;
        let mut mono: BTreeMap<usize, u64> = BTreeMap::new();
        for fam in &fams {
            let m = match NAMES.iter().position(|n| *n == fam.name) {
                Some(m) => m,
                None => return violation("render-foreign-family", format!("render shows family {} which nobody registered", fam.name)),
            };
            let ops: Vec<&Ev> = h.iter().filter(|e| metric_of(&e.op) == Some(m)).collect();
            if !ops.iter().any(|e| e.inv < r.ret) {
                return violation("render-future-metric", format!("family {} rendered before it was registered", fam.name));
            }
            // TYPE
            let want_type = match m {
                0 | 1 => "counter",
                2 => "gauge",
                _ => {
                    if is_histogram(cfg, m) {
                        "histogram"
                    } else {
                        "summary"
                    }
                }
            };
            if fam.typ.as_deref() != Some(want_type) {
                return violation("render-type", format!("family {} has TYPE {:?}, expected {}", fam.name, fam.typ, want_type));
            }
            // HELP = first description given for the name (one describing thread)
            let first = describes.iter().find(|d| matches!(&d.op, Op::Describe { m: dm, .. } if *dm == m));
            match (&fam.help, first) {
                (Some(hh), Some(d)) => {
                    if let Op::Describe { desc, .. } = &d.op {
                        if hh != DESCS[*desc] {
                            return violation("render-help", format!("HELP of {} is {:?}, the first description given was {:?}", fam.name, hh, DESCS[*desc]));
                        }
                    }
                    if d.inv > r.ret {
                        return violation("render-help", format!("HELP of {} shown before any description was given", fam.name));
                    }
                }
                (Some(hh), None) => return violation("render-help", format!("HELP {:?} shown for {} which was never described", hh, fam.name)),
                (None, Some(d)) => {
                    if d.ret < r.inv {
                        return violation("render-help-missing", format!("{} was described (step {}) before the render began ({}) but has no HELP line", fam.name, d.ret, r.inv));
                    }
                }
                (None, None) => {}
            }
            let s = match series_of(cfg, fam, m) {
                Ok(s) => s,
                Err(e) => return violation("render-labels", e),
            };
            match m {
                0 => {
                    let lo: u64 = ops.iter().filter(|e| e.ret < r.inv).map(|e| if let Op::CInc(v) = e.op { v } else { 0 }).sum();
                    let hi: u64 = ops.iter().filter(|e| e.inv < r.ret).map(|e| if let Op::CInc(v) = e.op { v } else { 0 }).sum();
                    let got = s.value.unwrap_or(-1.0) as u64;
                    if s.value.is_none() || got < lo || got > hi {
                        return violation("render-counter-value", format!("c_inc shows {:?}; increments completed before the render sum to {}, begun before it ended to {}", s.value, lo, hi));
                    }
                    mono.insert(0, got);
                }
                1 => {
                    let lo: u64 = ops.iter().filter(|e| e.ret < r.inv).map(|e| if let Op::CAbs(v) = e.op { v } else { 0 }).max().unwrap_or(0);
                    let hi: u64 = ops.iter().filter(|e| e.inv < r.ret).map(|e| if let Op::CAbs(v) = e.op { v } else { 0 }).max().unwrap_or(0);
                    let got = s.value.unwrap_or(-1.0) as u64;
                    if s.value.is_none() || got < lo || got > hi {
                        return violation("render-counter-value", format!("c_abs shows {:?}; highest absolute completed before the render is {}, begun before it ended {}", s.value, lo, hi));
                    }
                    mono.insert(1, got);
                }
                2 => {
                    let got = match s.value {
                        Some(g) => g.to_bits(),
                        None => return violation("render-gauge-value", "gauge family without a sample".into()),
                    };
                    let valid = ops.iter().any(|x| x.tag == got && x.inv < r.ret && !ops.iter().any(|w| x.ret < w.inv && w.ret < r.inv)) || (got == 0f64.to_bits() && !ops.iter().any(|w| w.ret < r.inv));
                    if !valid {
                        return violation("render-gauge-value", format!("g_one shows {} ({:?}), not a value the gauge could hold during the render (or it does not parse back to the value set)", s.value_text, s.value));
                    }
                }
                _ => {
                    let vals_lo: Vec<f64> = ops.iter().filter(|e| e.ret < r.inv).map(|e| if let Op::HRec(_, v) = e.op { v as f64 } else { 0.0 }).collect();
                    let vals_hi: Vec<f64> = ops.iter().filter(|e| e.inv < r.ret).map(|e| if let Op::HRec(_, v) = e.op { v as f64 } else { 0.0 }).collect();
                    let (count, sum) = match (s.count, s.sum) {
                        (Some(c), Some(su)) => (c, su),
                        _ => return violation("render-histogram-shape", format!("{} lacks _count or _sum", fam.name)),
                    };
                    if (count as usize) < vals_lo.len() || (count as usize) > vals_hi.len() {
                        return violation("render-histogram-count", format!("{}_count = {}; {} samples were recorded before the render began and {} before it ended{}", fam.name, count, vals_lo.len(), vals_hi.len(), if quiescent { " (quiescent render: must be exact)" } else { "" }));
                    }
                    let (slo, shi): (f64, f64) = (vals_lo.iter().sum(), vals_hi.iter().sum());
                    if sum < slo || sum > shi {
                        return violation("render-histogram-sum", format!("{}_sum = {}; window [{}, {}]", fam.name, sum, slo, shi));
                    }
                    mono.insert(m, count);
                    if is_histogram(cfg, m) {
                        let bounds = buckets_of(cfg, m);
                        if s.buckets.len() != bounds.len() + 1 {
                            return violation("render-histogram-shape", format!("{} has {} bucket lines, expected {} + Inf", fam.name, s.buckets.len(), bounds.len()));
                        }
                        let mut last = 0u64;
                        for (i, (le, c)) in s.buckets.iter().enumerate() {
                            if *c < last {
                                return violation("render-histogram-buckets", format!("{} bucket counts decrease at le={}", fam.name, le));
                            }
                            last = *c;
                            if i < bounds.len() {
                                let b: f64 = le.parse().unwrap_or(f64::NAN);
                                if b != bounds[i] {
                                    return violation("render-histogram-shape", format!("{} bucket {} has le={}, expected {}", fam.name, i, le, bounds[i]));
                                }
                                let lo = vals_lo.iter().filter(|v| **v <= b).count() as u64;
                                let hi = vals_hi.iter().filter(|v| **v <= b).count() as u64;
                                if *c < lo || *c > hi {
                                    return violation("render-histogram-buckets", format!("{} bucket le={} shows {}; window [{}, {}]", fam.name, le, c, lo, hi));
                                }
                            } else if le != "+Inf" || *c != count {
                                return violation("render-histogram-buckets", format!("{} last bucket is le={} count {}, expected +Inf = _count = {}", fam.name, le, c, count));
                            }
                        }
                    } else if !s.buckets.is_empty() {
                        return violation("render-histogram-shape", format!("summary {} has bucket lines", fam.name));
                    }
                }
            }
        }
        // presence: metrics registered before the render began must be there
        for m in 0..5 {
            let registered = h.iter().any(|e| metric_of(&e.op) == Some(m) && e.ret < r.inv);
            if registered && !fams.iter().any(|f| f.name == NAMES[m]) {
                return violation("render-missing-metric", format!("{} was registered and updated before the render began but is absent from the output", NAMES[m]));
            }
        }
        // monotone across non-overlapping renders
        for (pinv, pret, pm) in &prev {
            let _ = pinv;
            if *pret < r.inv {
                for (k, pv) in pm {
                    if let Some(nv) = mono.get(k) {
                        if nv < pv {
                            return violation("render-not-monotone", format!("{} went from {} to {} between two non-overlapping renders", NAMES[*k], pv, nv));
                        }
                    }
                }
            }
        }
        prev.push((r.inv, r.ret, mono));
    }
    // two quiescent renders: same set of lines, summary quantile values aside
    if nr >= 2 {
        let norm = |t: &str| -> BTreeSet<String> {
            t.lines()
                .filter(|l| !l.is_empty())
                .map(|l| if l.contains("quantile=\"") { l.rsplitn(2, ' ').nth(1).unwrap_or(l).to_string() } else { l.to_string() })
                .collect()
        };
        let a = norm(&renders[nr - 2].text);
        let b = norm(&renders[nr - 1].text);
        if a != b {
            let d: Vec<&String> = a.symmetric_difference(&b).collect();
            return violation("render-not-idempotent", format!("two renders with no update in between differ in lines {:?}", d));
        }
    }
    None
}
