//! C05 — the lock-free bucket never loses, duplicates or invents a sample.
//! Real `AtomicBucket`/`Block` and real crossbeam-epoch; every operation on `write`, `read`,
//! `tail`, `next` and both quiescence loops are sync/spin points (type-substituting shims).

use crate::framework::*;
use dsim::Rng;
use metrics_util::storage::AtomicBucket;
use serde::{Deserialize, Serialize};
use std::collections::{BTreeMap, BTreeSet};
use std::sync::atomic::{AtomicU8, Ordering};
use std::sync::{Arc, Mutex};

#[derive(Clone, Debug, Serialize, Deserialize, PartialEq)]
pub enum Op {
    Push,
    Data,
    DataWith,
    IsEmpty,
    Clear,
    ClearWith,
}

#[derive(Clone, Debug, Serialize, Deserialize)]
pub struct Plan {
    pub prefill: u32,
    pub token: bool,
    pub threads: Vec<Vec<Op>>,
}

pub struct Ledger {
    state: Vec<AtomicU8>,
    double_drop: AtomicU8,
}

pub struct Tok {
    tag: u64,
    idx: u32,
    ledger: Arc<Ledger>,
    // clones made by `data()` are not ledger entries
    primary: bool,
}

impl Drop for Tok {
    fn drop(&mut self) {
        if self.primary {
            if self.ledger.state[self.idx as usize].swap(2, Ordering::SeqCst) == 2 {
                self.ledger.double_drop.store(1, Ordering::SeqCst);
            }
        }
    }
}

trait Val: Send + Sync + 'static {
    fn tag(&self) -> u64;
    fn dup(&self) -> Self;
}
impl Val for u64 {
    fn tag(&self) -> u64 {
        *self
    }
    fn dup(&self) -> Self {
        *self
    }
}
impl Val for Tok {
    fn tag(&self) -> u64 {
        self.tag
    }
    fn dup(&self) -> Self {
        Tok { tag: self.tag, idx: self.idx, ledger: self.ledger.clone(), primary: false }
    }
}

fn mk_tag(tid: u32, seq: u32) -> u64 {
    let low = ((tid as u64) << 24) | seq as u64;
    let ck = (low.wrapping_mul(0x9E3779B97F4A7C15) >> 48) & 0xffff;
    (ck << 48) | low
}
fn tag_ok(t: u64) -> bool {
    let low = t & 0xffff_ffff_ffff;
    ((low.wrapping_mul(0x9E3779B97F4A7C15) >> 48) & 0xffff) == (t >> 48)
}
fn tag_tid(t: u64) -> u32 {
    ((t & 0xffff_ffff_ffff) >> 24) as u32
}
fn tag_seq(t: u64) -> u32 {
    (t & 0xff_ffff) as u32
}

#[derive(Clone, Debug)]
enum Res {
    Push(u64),
    Snap(Vec<u64>),
    Empty(bool),
    Clear(Vec<Vec<u64>>),
}

#[derive(Clone, Debug)]
struct HEv {
    tid: u32,
    inv: u64,
    ret: u64,
    res: Res,
}

pub struct C05Bucket;

fn run_ops<T: Val>(plan: &Plan, sched: &SchedSpec, make: Arc<dyn Fn(u64) -> T + Send + Sync>) -> (dsim::RunResult, Vec<HEv>, Vec<u64>, Vec<u64>) {
    let hist: Arc<Mutex<Vec<HEv>>> = Arc::new(Mutex::new(Vec::new()));
    let prefilled: Arc<Mutex<Vec<u64>>> = Arc::new(Mutex::new(Vec::new()));
    let final_drain: Arc<Mutex<Vec<u64>>> = Arc::new(Mutex::new(Vec::new()));
    let p = plan.clone();
    let (h2, pf2, fd2) = (hist.clone(), prefilled.clone(), final_drain.clone());
    let sim = simulate(sched, 60_000, move || {
        let bucket: Arc<AtomicBucket<T>> = Arc::new(AtomicBucket::new());
        dsim::passthrough(true);
        for i in 0..p.prefill {
            let t = mk_tag(0, i);
            bucket.push(make(t));
            pf2.lock().unwrap().push(t);
        }
        dsim::passthrough(false);
        let mut hs = vec![];
        for (ti, ops) in p.threads.iter().enumerate() {
            let ops = ops.clone();
            let bucket = bucket.clone();
            let hist = h2.clone();
            let make = make.clone();
            hs.push(dsim::spawn(&format!("w{}", ti + 1), move || {
                let tid = dsim::tid();
                let mut seq = 0u32;
                for op in ops {
                    dsim::point("c05.op");
                    let inv = dsim::step();
                    let res = match op {
                        Op::Push => {
                            let t = mk_tag(tid, seq);
                            seq += 1;
                            bucket.push(make(t));
                            Res::Push(t)
                        }
                        Op::Data => {
                            // `data()` needs Clone; go through data_with + dup for both types
                            let mut v = Vec::new();
                            bucket.data_with(|s| v.extend(s.iter().map(|x| x.tag())));
                            Res::Snap(v)
                        }
                        Op::DataWith => {
                            let mut v = Vec::new();
                            bucket.data_with(|s| {
                                for x in s {
                                    let d = x.dup();
                                    v.push(d.tag());
                                }
                            });
                            Res::Snap(v)
                        }
                        Op::IsEmpty => Res::Empty(bucket.is_empty()),
                        Op::Clear => {
                            bucket.clear();
                            Res::Clear(vec![])
                        }
                        Op::ClearWith => {
                            let mut v = Vec::new();
                            bucket.clear_with(|s| v.push(s.iter().map(|x| x.tag()).collect::<Vec<_>>()));
                            Res::Clear(v)
                        }
                    };
                    let ret = dsim::step();
                    hist.lock().unwrap().push(HEv { tid, inv, ret, res });
                }
            }));
        }
        for h in hs {
            h.join();
        }
        // Final single-threaded drain.
        let mut v = Vec::new();
        bucket.clear_with(|s| v.extend(s.iter().map(|x| x.tag())));
        *fd2.lock().unwrap() = v;
    });
    let h = hist.lock().unwrap().clone();
    let pf = prefilled.lock().unwrap().clone();
    let fd = final_drain.lock().unwrap().clone();
    (sim, h, pf, fd)
}

fn check(plan: &Plan, hist: &[HEv], prefilled: &[u64], final_drain: &[u64]) -> Option<Violation> {
    // pushed: tag -> (inv, ret); prefill at step 0
    let mut pushed: BTreeMap<u64, (u64, u64)> = BTreeMap::new();
    for t in prefilled {
        pushed.insert(*t, (0, 0));
    }
    let mut blind_clear = false;
    for e in hist {
        if let Res::Push(t) = &e.res {
            pushed.insert(*t, (e.inv, e.ret));
        }
        if let Res::Clear(v) = &e.res {
            if v.is_empty() {
                // `clear()` (no callback) or a clear_with that found nothing
            }
        }
    }
    for (ti, ops) in plan.threads.iter().enumerate() {
        let _ = ti;
        if ops.contains(&Op::Clear) {
            blind_clear = true;
        }
    }
    // delivered: tag -> clear inv step of the clear that delivered it
    let mut delivered: BTreeMap<u64, u64> = BTreeMap::new();
    let mut deliveries: Vec<(u64, u64)> = vec![];
    for e in hist {
        if let Res::Clear(slices) = &e.res {
            for s in slices {
                for t in s {
                    deliveries.push((*t, e.inv));
                }
            }
        }
    }
    for t in final_drain {
        deliveries.push((*t, u64::MAX - 1));
    }
    for (t, inv) in &deliveries {
        if !tag_ok(*t) {
            return violation("torn-or-fabricated-value", format!("a clear delivered {:#x}, which is not a well-formed tag", t));
        }
        if !pushed.contains_key(t) {
            return violation("fabricated-value", format!("a clear delivered tag {:#x} (t{} #{}) that was never pushed", t, tag_tid(*t), tag_seq(*t)));
        }
        if delivered.insert(*t, *inv).is_some() {
            return violation("duplicate-delivery", format!("tag t{}#{} was handed to two clearing reads", tag_tid(*t), tag_seq(*t)));
        }
    }
    if !blind_clear {
        for (t, (inv, ret)) in &pushed {
            if !delivered.contains_key(t) {
                return violation(
                    "lost-value",
                    format!("tag t{}#{} pushed (steps {}..{}) was never handed to any clearing read nor left in the bucket", tag_tid(*t), tag_seq(*t), inv, ret),
                );
            }
        }
    }
    // Snapshots
    for e in hist {
        match &e.res {
            Res::Snap(v) => {
                let mut seen = BTreeSet::new();
                for t in v {
                    if !tag_ok(*t) || !pushed.contains_key(t) {
                        return violation("snapshot-fabricated-value", format!("snapshot by t{} contains {:#x}, never pushed", e.tid, t));
                    }
                    if pushed[t].0 > e.ret {
                        return violation("snapshot-future-value", format!("snapshot returned at {} contains a tag pushed at {}", e.ret, pushed[t].0));
                    }
                    if !seen.insert(*t) {
                        return violation("snapshot-duplicate", format!("snapshot by t{} contains tag t{}#{} twice", e.tid, tag_tid(*t), tag_seq(*t)));
                    }
                }
                if !blind_clear {
                    for (t, (_, pret)) in &pushed {
                        let must = *pret < e.inv && delivered.get(t).map(|cinv| *cinv > e.ret).unwrap_or(true);
                        if must && !seen.contains(t) {
                            return violation(
                                "snapshot-missed-completed-push",
                                format!("snapshot by t{} (steps {}..{}) misses tag t{}#{} whose push completed at step {} and which no clear invoked before the snapshot returned has taken", e.tid, e.inv, e.ret, tag_tid(*t), tag_seq(*t), pret),
                            );
                        }
                    }
                }
            }
            Res::Empty(true) if !blind_clear => {
                for (t, (_, pret)) in &pushed {
                    let must = *pret < e.inv && delivered.get(t).map(|cinv| *cinv > e.ret).unwrap_or(true);
                    if must {
                        return violation(
                            "is-empty-missed-completed-push",
                            format!("is_empty() by t{} (steps {}..{}) returned true although tag t{}#{} (push completed at {}) is in the bucket", e.tid, e.inv, e.ret, tag_tid(*t), tag_seq(*t), pret),
                        );
                    }
                }
            }
            _ => {}
        }
    }
    // Order inside one slice
    let mut check_slice = |s: &Vec<u64>| -> Option<Violation> {
        let mut last_seq: BTreeMap<u32, u32> = BTreeMap::new();
        for t in s {
            let (tid, seq) = (tag_tid(*t), tag_seq(*t));
            if let Some(prev) = last_seq.get(&tid) {
                if *prev > seq {
                    return violation("block-order", format!("within one block t{}#{} appears before t{}#{}", tid, prev, tid, seq));
                }
            }
            last_seq.insert(tid, seq);
        }
        for i in 0..s.len() {
            for j in (i + 1)..s.len() {
                // s[i] appears before s[j]; violation if s[j]'s push returned before s[i]'s was invoked
                if let (Some(a), Some(b)) = (pushed.get(&s[i]), pushed.get(&s[j])) {
                    if b.1 < a.0 {
                        return violation("block-order", format!("within one block, a push that completed at step {} appears after one invoked at step {}", b.1, a.0));
                    }
                }
            }
        }
        None
    };
    for e in hist {
        if let Res::Clear(slices) = &e.res {
            for s in slices {
                if let Some(v) = check_slice(s) {
                    return Some(v);
                }
            }
        }
    }
    None
}

impl Scenario for C05Bucket {
    type Plan = Plan;
    fn property(&self) -> &'static str {
        "C05"
    }
    fn name(&self) -> &'static str {
        "bucket"
    }
    fn horizon(&self) -> u64 {
        400
    }
    fn plan(&self, r: &mut Rng, tier: Tier) -> Plan {
        // mostly next to a block boundary; rarely more than 32 blocks (the clear path reclaims
        // detached blocks in batches of 32)
        let prefill = if r.chance(30) { *r.pick(&[2049u32, 2113, 2176, 4161]) } else { *r.pick(&[0u32, 0, 1, 2, 61, 62, 63, 63, 64, 65, 126, 127, 128]) };
        let nthreads = r.range(2, 4) as usize;
        let max_ops = if tier == Tier::Thorough { 12 } else { 8 };
        let mut threads = vec![];
        // roles: pusher-heavy, reader, clearer; every plan has at least one pusher
        for i in 0..nthreads {
            let role = if i == 0 { 0 } else { r.below(4) };
            let n = r.range(1, max_ops);
            let mut ops = vec![];
            for _ in 0..n {
                let op = match role {
                    0 | 3 => match r.below(10) {
                        0 => Op::DataWith,
                        1 => Op::ClearWith,
                        _ => Op::Push,
                    },
                    1 => match r.below(10) {
                        0..=2 => Op::Data,
                        3..=5 => Op::DataWith,
                        6..=7 => Op::IsEmpty,
                        _ => Op::Push,
                    },
                    _ => match r.below(10) {
                        0..=5 => Op::ClearWith,
                        6 => {
                            if r.chance(100) {
                                Op::Clear
                            } else {
                                Op::ClearWith
                            }
                        }
                        7 => Op::IsEmpty,
                        _ => Op::Push,
                    },
                };
                ops.push(op);
            }
            threads.push(ops);
        }
        Plan { prefill, token: r.chance(300), threads }
    }
    fn execute(&self, plan: &Plan, sched: &SchedSpec) -> RunReport {
        let mut leak: Option<usize> = None;
        let (sim, hist, pf, fd, dd) = if plan.token {
            let total = plan.prefill as usize + plan.threads.iter().map(|t| t.len()).sum::<usize>() + 1;
            let ledger = Arc::new(Ledger { state: (0..total).map(|_| AtomicU8::new(0)).collect(), double_drop: AtomicU8::new(0) });
            let l2 = ledger.clone();
            let next = Arc::new(std::sync::atomic::AtomicU32::new(0));
            let make: Arc<dyn Fn(u64) -> Tok + Send + Sync> = Arc::new(move |t| {
                let idx = next.fetch_add(1, Ordering::SeqCst);
                l2.state[idx as usize].store(1, Ordering::SeqCst);
                Tok { tag: t, idx, ledger: l2.clone(), primary: true }
            });
            let (s, h, p, f) = run_ops::<Tok>(plan, sched, make);
            // every simulated thread is gone; drain the epoch garbage (on this non-simulated thread)
            // so that every detached block has really been destroyed, then each value with a
            // destructor must have been dropped exactly once
            crate::framework::flush_epoch();
            let leaked = ledger.state.iter().filter(|x| x.load(Ordering::SeqCst) == 1).count();
            if leaked > 0 && s.end == dsim::End::Completed && s.panics.is_empty() {
                leak = Some(leaked);
            }
            (s, h, p, f, ledger.double_drop.load(Ordering::SeqCst) != 0)
        } else {
            let make: Arc<dyn Fn(u64) -> u64 + Send + Sync> = Arc::new(|t| t);
            let (s, h, p, f) = run_ops::<u64>(plan, sched, make);
            (s, h, p, f, false)
        };
        let mut rep = RunReport::ok(sim);
        let sim = rep.sim.as_ref().unwrap();
        let mut v = None;
        if !sim.panics.is_empty() {
            v = violation("panic", format!("{:?}", sim.panics));
        } else if sim.end == dsim::End::Completed {
            v = check(plan, &hist, &pf, &fd);
            if v.is_none() && dd {
                v = violation("double-drop", "a value with a destructor was dropped twice".into());
            }
            if v.is_none() {
                if let Some(n) = leak {
                    v = violation("value-never-dropped", format!("{} value(s) with a destructor were pushed, every block was cleared and reclaimed, yet their destructors never ran", n));
                }
            }
        }
        let mut obs = String::new();
        for e in &hist {
            obs.push_str(&format!("{}:{}-{}:{:?};", e.tid, e.inv, e.ret, e.res));
        }
        obs.push_str(&format!("final={:?}", fd));
        rep.history_hash = crate::util::hash_str(&obs);
        rep.observations = obs;
        rep.count("ops", hist.len() as u64);
        rep.count("pushes", hist.iter().filter(|e| matches!(e.res, Res::Push(_))).count() as u64);
        rep.count("snapshots", hist.iter().filter(|e| matches!(e.res, Res::Snap(_))).count() as u64);
        rep.count("clears", hist.iter().filter(|e| matches!(e.res, Res::Clear(_))).count() as u64);
        rep.count("clears_nonempty", hist.iter().filter(|e| matches!(&e.res, Res::Clear(v) if !v.is_empty())).count() as u64);
        rep.count("token_runs", plan.token as u64);
        rep.violation = v;
        rep
    }
    fn shrink(&self, p: &Plan) -> Vec<Plan> {
        let mut out = vec![];
        // drop a thread
        if p.threads.len() > 1 {
            for i in 0..p.threads.len() {
                let mut q = p.clone();
                q.threads.remove(i);
                out.push(q);
            }
        }
        // drop an op
        for i in 0..p.threads.len() {
            for j in 0..p.threads[i].len() {
                if p.threads[i].len() > 1 {
                    let mut q = p.clone();
                    q.threads[i].remove(j);
                    out.push(q);
                }
            }
        }
        if p.token {
            let mut q = p.clone();
            q.token = false;
            out.push(q);
        }
        // simplify ops
        for i in 0..p.threads.len() {
            for j in 0..p.threads[i].len() {
                let simpler = match p.threads[i][j] {
                    Op::Data => Some(Op::DataWith),
                    Op::Clear => Some(Op::ClearWith),
                    _ => None,
                };
                if let Some(s) = simpler {
                    let mut q = p.clone();
                    q.threads[i][j] = s;
                    out.push(q);
                }
            }
        }
        out
    }
    fn real_components(&self) -> Vec<&'static str> {
        vec!["metrics_util::storage::AtomicBucket (push, data_with, is_empty, clear, clear_with)", "Block::{push,is_quiesced,data,drop}", "crossbeam-epoch (pin, defer, flush)"]
    }
    fn stub_components(&self) -> Vec<&'static str> {
        vec!["thread scheduler (dsim)", "Backoff::snooze (reports a spin to the scheduler instead of sleeping)"]
    }
    fn assumptions(&self) -> Vec<&'static str> {
        vec!["plans containing the callback-less clear() cannot attribute deliveries, so conservation/snapshot-completeness are checked only on plans without it (about 97% of plans); fabricated/duplicate/order checks run on all"]
    }
}
