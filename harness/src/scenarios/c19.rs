//! C19 — debugging snapshots show every registered metric with its true current state.
//! Real `DebuggingRecorder`/`Snapshotter` (its mutexes, the registry locks, the atomics and the
//! histogram bucket are all seams); updaters ∥ snapshotters; a second recorder installed locally
//! on another thread.

use crate::framework::*;
const NKEYS: usize = 4;
use dsim::Rng;
use metrics::{Key, KeyName, Label, Level, Metadata, Recorder, Unit};
use metrics_util::debugging::{DebugValue, DebuggingRecorder, Snapshotter};
use metrics_util::MetricKind;
use serde::{Deserialize, Serialize};
use std::collections::{BTreeMap, BTreeSet};
use std::sync::{Arc, Mutex};

static MD: Metadata<'static> = Metadata::new("c19", Level::INFO, None);
static SL_AB: [Label; 2] = [Label::from_static_parts("a", "1"), Label::from_static_parts("b", "2")];

const NAMES: [&str; 3] = ["k0", "k1", "k2"];
const DESCS: [&str; 3] = ["first", "second", ""];

fn build_key(logical: usize, variant: u8) -> Key {
    match logical % NKEYS {
        0 => match variant % 2 {
            0 => Key::from_static_name("k0"),
            _ => Key::from_name(String::from("k0")),
        },
        1 => match variant % 3 {
            0 => Key::from_static_parts("k1", &SL_AB),
            1 => Key::from_parts(String::from("k1"), vec![Label::new("b", "2"), Label::new("a", "1")]),
            _ => Key::from_name("k1").with_extra_labels(vec![Label::new("a", "1"), Label::new("b", "2")]),
        },
        2 => Key::from_name("k2"),
        _ => Key::from_parts("k0", vec![Label::new("a", "1")]),
    }
}
fn key_name_idx(logical: usize) -> usize {
    match logical % NKEYS {
        0 | 3 => 0,
        1 => 1,
        _ => 2,
    }
}
fn logical_of(key: &Key) -> Option<usize> {
    (0..NKEYS).find(|&i| build_key(i, 0) == *key)
}
fn unit_of(i: u8) -> Option<Unit> {
    match i % 3 {
        0 => None,
        1 => Some(Unit::Bytes),
        _ => Some(Unit::Seconds),
    }
}

#[derive(Clone, Debug, Serialize, Deserialize, PartialEq)]
pub enum Op {
    CInc { key: usize, variant: u8, v: u64 },
    GSet { key: usize, variant: u8 },
    HRec { key: usize, variant: u8 },
    Describe { kind: u8, name: usize, unit: u8, desc: usize },
    Snapshot,
    /// a nested local scope of the *other* recorder whose closure panics (caught): afterwards this
    /// thread's emissions belong to its own recorder again
    PanicScope,
}

#[derive(Clone, Debug, Serialize, Deserialize)]
pub struct Plan {
    pub nkeys: usize,
    /// threads[i] = (recorder index 0|1, ops). All Describe ops of a recorder live in one thread.
    pub threads: Vec<(u8, Vec<Op>)>,
    /// values recorded into histogram key 0 of recorder 0 before the threads start (its sample
    /// bucket holds 64 values per block)
    #[serde(default)]
    pub hist_prefill: u32,
    /// > 0: afterwards this many short-lived recorders are created one after the other on one
    /// thread (each dropped before the next exists), each registering the same counter and taking
    /// one snapshot: a recorder is restarted, and nothing the old one knew may stand in for the new
    #[serde(default)]
    pub recreate: u32,
}

type Entry = (u8, Option<usize>, Option<String>, Option<String>, Val);

#[derive(Clone, Debug, PartialEq)]
enum Val {
    C(u64),
    G(u64),
    H(Vec<u64>),
}

#[derive(Clone, Debug)]
struct Ev {
    rec: u8,
    tid: u32,
    inv: u64,
    ret: u64,
    op: Op,
    /// value used (unique tag for gauge sets and histogram records)
    tag: u64,
    snap: Vec<Entry>,
}

fn kind_u8(k: MetricKind) -> u8 {
    match k {
        MetricKind::Counter => 0,
        MetricKind::Gauge => 1,
        MetricKind::Histogram => 2,
    }
}

fn take_snapshot(s: &Snapshotter) -> Vec<Entry> {
    s.snapshot()
        .into_vec()
        .into_iter()
        .map(|(ck, unit, desc, val)| {
            let v = match val {
                DebugValue::Counter(c) => Val::C(c),
                DebugValue::Gauge(g) => Val::G(g.into_inner().to_bits()),
                DebugValue::Histogram(h) => Val::H(h.into_iter().map(|x| x.into_inner().to_bits()).collect()),
            };
            (kind_u8(ck.kind()), logical_of(ck.key()), unit.map(|u| u.as_str().to_string()), desc.map(|d| d.to_string()), v)
        })
        .collect()
}

pub struct C19Debugging;

impl Scenario for C19Debugging {
    type Plan = Plan;
    fn property(&self) -> &'static str {
        "C19"
    }
    fn name(&self) -> &'static str {
        "debugging"
    }
    fn horizon(&self) -> u64 {
        600
    }
    fn plan(&self, r: &mut Rng, tier: Tier) -> Plan {
        let nkeys = r.range(1, NKEYS as u64) as usize;
        let max_ops = if tier == Tier::Thorough { 8 } else { 6 };
        let mut threads: Vec<(u8, Vec<Op>)> = vec![];
        let two = r.chance(350);
        let nupd = r.range(1, 3);
        let mut gen_ops = |r: &mut Rng, describer: bool, snapshots: bool| -> Vec<Op> {
            let n = r.range(1, max_ops);
            (0..n)
                .map(|_| {
                    let key = r.below(nkeys as u64) as usize;
                    let variant = r.below(3) as u8;
                    if snapshots && r.chance(500) {
                        return Op::Snapshot;
                    }
                    if r.chance(60) {
                        return Op::PanicScope;
                    }
                    match r.below(10) {
                        0..=2 => Op::CInc { key, variant, v: r.range(1, 9) },
                        3..=4 => Op::GSet { key, variant },
                        5..=7 => Op::HRec { key, variant },
                        _ => {
                            if describer {
                                Op::Describe { kind: r.below(3) as u8, name: r.below(NAMES.len() as u64) as usize, unit: r.below(3) as u8, desc: r.below(DESCS.len() as u64) as usize }
                            } else {
                                Op::HRec { key, variant }
                            }
                        }
                    }
                })
                .collect()
        };
        for i in 0..nupd {
            let ops = gen_ops(r, i == 0, false);
            threads.push((0, ops));
        }
        for _ in 0..r.range(1, 2) {
            let ops = gen_ops(r, false, true);
            threads.push((0, ops));
        }
        if two {
            let ops = gen_ops(r, true, true);
            threads.push((1, ops));
        }
        let hist_prefill = *r.pick(&[0u32, 0, 0, 62, 63, 64, 65, 130]);
        Plan { nkeys, threads, hist_prefill, recreate: if r.chance(80) { r.range(2, 4) as u32 } else { 0 } }
    }
    fn execute(&self, plan: &Plan, sched: &SchedSpec) -> RunReport {
        let hist: Arc<Mutex<Vec<Ev>>> = Arc::new(Mutex::new(vec![]));
        let p = plan.clone();
        let h2 = hist.clone();
        let recreate_err: Arc<Mutex<Option<String>>> = Arc::new(Mutex::new(None));
        let re2 = recreate_err.clone();
        let sim = simulate(sched, 150_000, move || {
            let recs: Arc<Vec<DebuggingRecorder>> = Arc::new(vec![DebuggingRecorder::new(), DebuggingRecorder::new()]);
            let snaps: Arc<Vec<Snapshotter>> = Arc::new(recs.iter().map(|r| r.snapshotter()).collect());
            if p.hist_prefill > 0 {
                dsim::passthrough(true);
                metrics::with_local_recorder(&recs[0], || {
                    for i in 0..p.hist_prefill {
                        let tag = (1_000_000 + i as u64) as f64;
                        let k = build_key(0, 0);
                        metrics::with_recorder(|r| r.register_histogram(&k, &MD)).record(tag);
                        h2.lock().unwrap().push(Ev { rec: 0, tid: 0, inv: 0, ret: 0, op: Op::HRec { key: 0, variant: 0 }, tag: tag.to_bits(), snap: vec![] });
                    }
                });
                dsim::passthrough(false);
            }
            let mut hs = vec![];
            for (ti, (ri, ops)) in p.threads.iter().enumerate() {
                let ops = ops.clone();
                let ri = *ri;
                let recs = recs.clone();
                let snaps = snaps.clone();
                let hist = h2.clone();
                hs.push(dsim::spawn(&format!("w{}", ti + 1), move || {
                    let tid = dsim::tid();
                    let mut seq = 0u64;
                    // the recorder is installed locally on this thread; emissions go through the
                    // thread-local dispatch path, exactly as the macros do
                    metrics::with_local_recorder(&recs[ri as usize], || {
                        for op in ops {
                            dsim::point("c19.op");
                            seq += 1;
                            let tag = ((tid as u64) << 20 | seq) as f64;
                            let inv = dsim::step();
                            let mut snap = vec![];
                            match &op {
                                Op::CInc { key, variant, v } => {
                                    let k = build_key(*key, *variant);
                                    metrics::with_recorder(|r| r.register_counter(&k, &MD)).increment(*v);
                                }
                                Op::GSet { key, variant } => {
                                    let k = build_key(*key, *variant);
                                    metrics::with_recorder(|r| r.register_gauge(&k, &MD)).set(tag);
                                }
                                Op::HRec { key, variant } => {
                                    let k = build_key(*key, *variant);
                                    metrics::with_recorder(|r| r.register_histogram(&k, &MD)).record(tag);
                                }
                                Op::Describe { kind, name, unit, desc } => {
                                    let kn = KeyName::from_const_str(NAMES[*name]);
                                    metrics::with_recorder(|r| match kind {
                                        0 => r.describe_counter(kn, unit_of(*unit), DESCS[*desc].into()),
                                        1 => r.describe_gauge(kn, unit_of(*unit), DESCS[*desc].into()),
                                        _ => r.describe_histogram(kn, unit_of(*unit), DESCS[*desc].into()),
                                    });
                                }
                                Op::Snapshot => snap = take_snapshot(&snaps[ri as usize]),
                                Op::PanicScope => {
                                    struct ScopePanic;
                                    let other = &recs[1 - ri as usize];
                                    let r = std::panic::catch_unwind(std::panic::AssertUnwindSafe(|| {
                                        metrics::with_local_recorder(other, || std::panic::resume_unwind(Box::new(ScopePanic)))
                                    }));
                                    if let Err(p) = r {
                                        if !p.is::<ScopePanic>() {
                                            std::panic::resume_unwind(p);
                                        }
                                    }
                                }
                            }
                            let ret = dsim::step();
                            hist.lock().unwrap().push(Ev { rec: ri, tid, inv, ret, op, tag: tag.to_bits(), snap });
                        }
                    });
                }));
            }
            for h in hs {
                h.join();
            }
            for ri in 0..2u8 {
                let inv = dsim::step();
                let snap = take_snapshot(&snaps[ri as usize]);
                h2.lock().unwrap().push(Ev { rec: ri, tid: 0, inv, ret: u64::MAX - 1, op: Op::Snapshot, tag: 0, snap });
            }
            for cycle in 0..p.recreate {
                let r = DebuggingRecorder::new();
                let s = r.snapshotter();
                let k = build_key(0, 0);
                metrics::with_local_recorder(&r, || metrics::with_recorder(|r| r.register_counter(&k, &MD)).increment(cycle as u64 + 1));
                let snap = take_snapshot(&s);
                let want: Vec<Entry> = vec![(0, Some(0), None, None, Val::C(cycle as u64 + 1))];
                if snap != want {
                    let mut e = re2.lock().unwrap();
                    if e.is_none() {
                        *e = Some(format!("recorder #{} of {} created one after the other on one thread registered counter key 0 and added {}; its snapshot is {:?}, expected {:?}", cycle + 1, p.recreate, cycle + 1, snap, want));
                    }
                }
            }
        });
        let mut rep = RunReport::ok(sim);
        let simr = rep.sim.as_ref().unwrap();
        let h = hist.lock().unwrap().clone();
        let mut v = None;
        if !simr.panics.is_empty() {
            v = violation("panic", format!("{:?}", simr.panics));
        } else if simr.end == dsim::End::Completed {
            for ri in 0..2u8 {
                if v.is_none() {
                    let hh: Vec<&Ev> = h.iter().filter(|e| e.rec == ri).collect();
                    v = check_rec(&hh);
                }
            }
        }
        if let (true, Some(e)) = (v.is_none(), recreate_err.lock().unwrap().clone()) {
            v = violation("snapshot-after-recreation", e);
        }
        rep.observations = format!("{:?}", h);
        rep.history_hash = crate::util::hash_str(&rep.observations);
        rep.count("ops", h.len() as u64);
        rep.count("snapshots", h.iter().filter(|e| e.op == Op::Snapshot).count() as u64);
        rep.violation = v;
        rep
    }
    fn shrink(&self, p: &Plan) -> Vec<Plan> {
        let mut out = vec![];
        if p.hist_prefill > 0 {
            out.push(Plan { hist_prefill: if p.hist_prefill > 65 { 65 } else { 0 }, ..p.clone() });
        }
        if p.recreate > 2 {
            out.push(Plan { recreate: p.recreate - 1, ..p.clone() });
        }
        if p.threads.len() > 1 {
            for i in 0..p.threads.len() {
                let mut q = p.clone();
                q.threads.remove(i);
                out.push(q);
            }
        }
        for i in 0..p.threads.len() {
            for j in 0..p.threads[i].1.len() {
                if p.threads[i].1.len() > 1 {
                    let mut q = p.clone();
                    q.threads[i].1.remove(j);
                    out.push(q);
                }
            }
        }
        out
    }
    fn real_components(&self) -> Vec<&'static str> {
        vec!["metrics_util::debugging::{DebuggingRecorder, Snapshotter}", "Registry<Key, AtomicStorage>", "AtomicBucket (histogram drain by clear_with)", "metrics::with_local_recorder / with_recorder dispatch"]
    }
    fn stub_components(&self) -> Vec<&'static str> {
        vec!["thread scheduler (dsim)", "Mutex / RwLock acquisition (try-lock + spin reported to the scheduler)"]
    }
}

fn check_rec(h: &[&Ev]) -> Option<Violation> {
    // first registration per (kind, logical key)
    let mut firstreg: BTreeMap<(u8, usize), (u64, u64)> = BTreeMap::new();
    for e in h {
        let kk = match &e.op {
            Op::CInc { key, .. } => Some((0u8, *key)),
            Op::GSet { key, .. } => Some((1u8, *key)),
            Op::HRec { key, .. } => Some((2u8, *key)),
            _ => None,
        };
        if let Some(kk) = kk {
            let en = firstreg.entry(kk).or_insert((e.inv, e.ret));
            if e.inv < en.0 {
                en.0 = e.inv;
            }
            if e.ret < en.1 {
                en.1 = e.ret;
            }
        }
    }
    // describes in real-time order (single describer thread per recorder)
    let describes: Vec<&&Ev> = h.iter().filter(|e| matches!(e.op, Op::Describe { .. })).collect();
    let meta_after = |j: usize, kind: u8, name: usize| -> (Option<String>, Option<String>) {
        let mut unit: Option<String> = None;
        let mut desc: Option<String> = None;
        for d in describes.iter().take(j) {
            if let Op::Describe { kind: k, name: n, unit: u, desc: ds } = &d.op {
                if *k == kind && *n == name {
                    if let Some(un) = unit_of(*u) {
                        unit = Some(un.as_str().to_string());
                    }
                    desc = Some(DESCS[*ds].to_string());
                }
            }
        }
        (unit, desc)
    };
    let mut hist_seen: BTreeMap<u64, u64> = BTreeMap::new(); // tag -> snapshot inv
    for s in h.iter().filter(|e| e.op == Op::Snapshot) {
        let mut listed = BTreeSet::new();
        for (pos, (kind, lk, unit, desc, val)) in s.snap.iter().enumerate() {
            let lk = match lk {
                Some(l) => *l,
                None => return violation("snapshot-foreign-metric", format!("snapshot of recorder {} lists a key outside its pool", s.rec)),
            };
            if !listed.insert((*kind, lk)) {
                return violation("snapshot-duplicate-metric", format!("snapshot lists (kind {}, key {}) twice", kind, lk));
            }
            match firstreg.get(&(*kind, lk)) {
                None => return violation("snapshot-unregistered-metric", format!("snapshot of recorder {} lists (kind {}, key {}) which was never registered on it (described only, or registered on another recorder)", s.rec, kind, lk)),
                Some((inv, _)) => {
                    if *inv > s.ret {
                        return violation("snapshot-future-metric", format!("(kind {}, key {}) listed before its registration was invoked", kind, lk));
                    }
                }
            }
            // order of first registration
            for (kind2, lk2, ..) in s.snap.iter().skip(pos + 1) {
                if let (Some(a), Some(b)) = (firstreg.get(&(*kind, lk)), lk2.and_then(|l| firstreg.get(&(*kind2, l)))) {
                    if b.1 < a.0 {
                        return violation("snapshot-order", format!("(kind {}, key {}) is listed before (kind {}, key {:?}) although the latter's first registration completed (step {}) before the former's began (step {})", kind, lk, kind2, lk2, b.1, a.0));
                    }
                }
            }
            // metadata
            let lo = describes.iter().filter(|d| d.ret < s.inv).count();
            let hi = describes.iter().filter(|d| d.inv < s.ret).count();
            let ok = (lo..=hi).any(|j| meta_after(j, *kind, key_name_idx(lk)) == (unit.clone(), desc.clone()));
            if !ok {
                return violation("snapshot-metadata", format!("(kind {}, key {}) shows unit {:?} / description {:?}; the describe history allows {:?}..{:?}", kind, lk, unit, desc, meta_after(lo, *kind, key_name_idx(lk)), meta_after(hi, *kind, key_name_idx(lk))));
            }
            // values
            match val {
                Val::C(c) => {
                    let lo: u64 = h.iter().filter_map(|e| if let Op::CInc { key, v, .. } = &e.op { if *key == lk && e.ret < s.inv { Some(*v) } else { None } } else { None }).sum();
                    let hi: u64 = h.iter().filter_map(|e| if let Op::CInc { key, v, .. } = &e.op { if *key == lk && e.inv < s.ret { Some(*v) } else { None } } else { None }).sum();
                    if *c < lo || *c > hi {
                        return violation("snapshot-counter-value", format!("counter key {} shows {} but increments completed before the snapshot sum to {} and those begun before it ended to {}", lk, c, lo, hi));
                    }
                }
                Val::G(g) => {
                    let sets: Vec<&&Ev> = h.iter().filter(|e| matches!(&e.op, Op::GSet { key, .. } if *key == lk)).collect();
                    let valid = sets.iter().any(|x| x.tag == *g && x.inv < s.ret && !sets.iter().any(|w| x.ret < w.inv && w.ret < s.inv))
                        || (*g == 0f64.to_bits() && !sets.iter().any(|w| w.ret < s.inv));
                    if !valid {
                        return violation("snapshot-gauge-value", format!("gauge key {} shows {:?}, not a value it could hold during the snapshot", lk, f64::from_bits(*g)));
                    }
                }
                Val::H(vals) => {
                    for t in vals {
                        let rec = h.iter().find(|e| matches!(&e.op, Op::HRec { key, .. } if *key == lk) && e.tag == *t);
                        match rec {
                            None => return violation("snapshot-histogram-foreign-value", format!("histogram key {} shows {:?} which was never recorded under it", lk, f64::from_bits(*t))),
                            Some(r) => {
                                if r.inv > s.ret {
                                    return violation("snapshot-histogram-future-value", format!("value recorded at {} in snapshot that ended at {}", r.inv, s.ret));
                                }
                            }
                        }
                        if hist_seen.insert(*t, s.inv).is_some() {
                            return violation("snapshot-histogram-duplicate", format!("histogram value {:?} (key {}) appears in two snapshots", f64::from_bits(*t), lk));
                        }
                    }
                }
            }
        }
        // completeness: registered-before-snapshot metrics are listed
        for (kk, (_, ret)) in &firstreg {
            if *ret < s.inv && !listed.contains(kk) {
                return violation("snapshot-missing-metric", format!("(kind {}, key {}) was registered (completed step {}) before the snapshot began ({}) but is not listed", kk.0, kk.1, ret, s.inv));
            }
        }
    }
    // each histogram value in exactly one snapshot (a quiescent snapshot closes every history)
    for e in h {
        if let Op::HRec { key, .. } = &e.op {
            if !hist_seen.contains_key(&e.tag) {
                return violation("snapshot-histogram-lost", format!("value recorded under histogram key {} at steps {}..{} never appeared in any snapshot", key, e.inv, e.ret));
            }
        }
    }
    None
}
