//! C18 — the scrape endpoint serves the current rendering and enforces its allowlist.
//! Real `PrometheusBuilder::build()` future (accept loop, `check_tcp_allowed`,
//! `handle_http_request`, hyper http1) on a tokio current-thread runtime; stub = the
//! listener/stream shim over the simulated network, which lets peers carry ANY source address.
//! Harness peers are tasks of the same runtime with scripted, seed-chunked writes.
//! This scenario does not run under dsim: task interleaving is tokio's own deterministic
//! current-thread scheduler plus the one scheduler the harness does not own (spawn_blocking
//! completion), so outcomes are judged per connection, never in global order.

use crate::framework::*;
use crate::oracles::promtext;
use crate::simnet::{self, Net};
use dsim::Rng;
use metrics::{Key, Level, Metadata, Recorder};
use metrics_exporter_prometheus::PrometheusBuilder;
use serde::{Deserialize, Serialize};
use std::net::{IpAddr, SocketAddr};
use std::sync::atomic::{AtomicU64, Ordering};
use std::sync::Arc;
use std::time::{Duration, Instant};

static MD: Metadata<'static> = Metadata::new("c18", Level::INFO, None);

// includes nested blocks that share a base address (10.0.0.0, 10.0.0.0/30, 10.0.0.0/8; 192.168.1.0/30 in /24; fd00::/64 in fd00::/8)
pub const ALLOW_POOL: [&str; 14] = ["10.1.2.3", "192.168.1.0/24", "10.0.0.0/8", "192.168.1.128/25", "::1", "fd00::/8", "172.16.5.4/32", "0.0.0.0/0", "2001:db8::5", "10.1.2.0/30", "10.0.0.0/30", "10.0.0.0", "192.168.1.0/30", "fd00::/64"];
pub const PEER_POOL: [&str; 22] = [
    "10.0.0.0", "10.0.0.1", "10.0.0.4", "192.168.1.3", "192.168.1.4", "fd00:0:0:1::1",
    "10.1.2.3", "10.1.2.4", "10.1.2.2", "192.168.1.0", "192.168.1.255", "192.168.0.255", "192.168.2.0", "192.168.1.127", "192.168.1.128", "10.255.255.255", "11.0.0.0", "9.255.255.255", "::1", "fd00::1", "fe00::1", "2001:db8::5",
];
const PATHS: [&str; 6] = ["/metrics", "/", "/health", "/healthz", "/metrics/../health", "/a/very/long/path/that/goes/on/and/on/and/on/and/on/and/on?with=query&and=more"];

#[derive(Clone, Debug, Serialize, Deserialize, PartialEq)]
pub enum Kind {
    Get(usize),
    Pipelined(usize, usize),
    Garbage(u8),
    TruncatedHead,
    HalfOpen,
    ResetMidRequest,
    ResetAfterRequest,
}

#[derive(Clone, Debug, Serialize, Deserialize)]
pub struct Conn {
    pub peer: usize,
    pub kind: Kind,
    pub chunk: usize,
    /// runtime turns this client waits before it connects (staggered arrivals within a group)
    #[serde(default)]
    pub delay: u32,
    /// runtime turns between connecting and sending the first byte (a pooled or slow client)
    #[serde(default)]
    pub idle: u32,
}

#[derive(Clone, Debug, Serialize, Deserialize)]
pub struct Plan {
    pub allow: Option<Vec<usize>>,
    pub groups: Vec<Vec<Conn>>,
    /// the allowlist entries are added before `with_http_listener` is called (builder call order)
    #[serde(default)]
    pub allow_first: bool,
    /// this many malformed / truncated connections, one after the other, before the groups
    #[serde(default)]
    pub bad_storm: u32,
    /// this many extra series are registered first, so that one rendering takes long enough for
    /// concurrent scrapes (rendered on the runtime's blocking pool, real threads) to overlap
    #[serde(default)]
    pub heavy: u32,
    /// > 0: after the groups, one scrape is made while the runtime's only blocking thread is held
    /// by other work and the runtime's clock jumps ahead by this many seconds before it is released
    /// (a stalled renderer: the answer is late, it is still the rendering)
    #[serde(default)]
    pub stall_render_s: u32,
}

// ---- independent CIDR model ------------------------------------------------------------------
fn parse_net(s: &str) -> Option<(IpAddr, u8)> {
    match s.split_once('/') {
        Some((a, p)) => Some((a.parse().ok()?, p.parse().ok()?)),
        None => {
            let a: IpAddr = s.parse().ok()?;
            Some((a, if a.is_ipv4() { 32 } else { 128 }))
        }
    }
}
fn contains(net: (IpAddr, u8), ip: IpAddr) -> bool {
    match (net.0, ip) {
        (IpAddr::V4(n), IpAddr::V4(i)) => {
            let (n, i) = (u32::from(n), u32::from(i));
            let mask = if net.1 == 0 { 0 } else { u32::MAX << (32 - net.1 as u32) };
            n & mask == i & mask
        }
        (IpAddr::V6(n), IpAddr::V6(i)) => {
            let (n, i) = (u128::from(n), u128::from(i));
            let mask = if net.1 == 0 { 0 } else { u128::MAX << (128 - net.1 as u32) };
            n & mask == i & mask
        }
        _ => false,
    }
}
fn model_allowed(allow: &Option<Vec<usize>>, peer: usize) -> bool {
    match allow {
        None => true,
        Some(entries) => {
            let ip: IpAddr = PEER_POOL[peer].parse().unwrap();
            entries.iter().any(|e| parse_net(ALLOW_POOL[*e]).map(|n| contains(n, ip)).unwrap_or(false))
        }
    }
}

#[derive(Clone, Debug, Default)]
pub struct Outcome {
    pub responses: Vec<(u16, Vec<u8>)>,
    pub raw: Vec<u8>,
    pub hits_before: u64,
    /// per request: the counter's value just before the client wrote the request's last bytes
    pub hits_req: Vec<u64>,
    pub hits_after: u64,
    pub closed_by_server: bool,
    /// simulated connection id (to match per-connection faults)
    pub conn: u64,
}

fn parse_responses(raw: &[u8]) -> Vec<(u16, Vec<u8>)> {
    let mut out = vec![];
    let mut i = 0;
    while i < raw.len() {
        let rest = &raw[i..];
        let head_end = match rest.windows(4).position(|w| w == b"\r\n\r\n") {
            Some(p) => p,
            None => break,
        };
        let head = String::from_utf8_lossy(&rest[..head_end]).to_string();
        let mut lines = head.split("\r\n");
        let status: u16 = lines.next().and_then(|l| l.split(' ').nth(1)).and_then(|s| s.parse().ok()).unwrap_or(0);
        let mut len = 0usize;
        for l in lines {
            if let Some((k, v)) = l.split_once(':') {
                if k.eq_ignore_ascii_case("content-length") {
                    len = v.trim().parse().unwrap_or(0);
                }
            }
        }
        let body_start = head_end + 4;
        if rest.len() < body_start + len {
            break;
        }
        out.push((status, rest[body_start..body_start + len].to_vec()));
        i += body_start + len;
    }
    out
}

fn request(path: &str) -> Vec<u8> {
    format!("GET {} HTTP/1.1\r\nHost: sim\r\nUser-Agent: c18\r\n\r\n", path).into_bytes()
}

async fn turn() {
    tokio::task::yield_now().await;
}

/// `release`: a half-open connection is held open (nothing sent, nothing closed) until the other
/// connections of its group have finished, so that whoever serves it is kept busy meanwhile.
async fn peer_task(net: Arc<Net>, addr: SocketAddr, c: Conn, hits: Arc<AtomicU64>, port: u16, release: Arc<std::sync::atomic::AtomicBool>) -> Outcome {
    for _ in 0..c.delay {
        turn().await;
    }
    let mut o = Outcome { hits_before: hits.load(Ordering::SeqCst), ..Default::default() };
    let peer = SocketAddr::new(PEER_POOL[c.peer].parse().unwrap(), port);
    let id = match net.peer_connect(addr, peer, 1 << 16) {
        Some(id) => id,
        None => return o,
    };
    o.conn = id;
    let (bytes, expect_responses, cut, then): (Vec<u8>, usize, Option<usize>, u8) = match &c.kind {
        Kind::Get(p) => (request(PATHS[*p]), 1, None, 0),
        Kind::Pipelined(a, b) => ([request(PATHS[*a]), request(PATHS[*b])].concat(), 2, None, 0),
        Kind::Garbage(g) => (match g % 3 {
            0 => b"\x00\x01\x02\xff\xfe garbage \r\n\r\n".to_vec(),
            1 => b"NOT A VALID REQUEST LINE\r\n\r\n".to_vec(),
            _ => vec![b'A'; 70_000],
        }, 0, None, 0),
        Kind::TruncatedHead => (b"GET /metrics HTTP/1.1\r\nHost: si".to_vec(), 0, None, 1),
        Kind::HalfOpen => (vec![], 0, None, 0),
        Kind::ResetMidRequest => (request("/metrics"), 0, Some(9), 2),
        Kind::ResetAfterRequest => (request("/metrics"), 0, None, 2),
    };
    let bytes = match cut {
        Some(n) => bytes[..n.min(bytes.len())].to_vec(),
        None => bytes,
    };
    for _ in 0..c.idle {
        turn().await;
    }
    // ends of the well-formed requests within `bytes` (nothing to record for the other kinds)
    let ends: Vec<usize> = match &c.kind {
        Kind::Get(_) => vec![bytes.len()],
        Kind::Pipelined(a, _) => vec![request(PATHS[*a]).len(), bytes.len()],
        _ => vec![],
    };
    let mut written = 0usize;
    for ch in bytes.chunks(c.chunk.max(1)) {
        for e in &ends {
            if written < *e && written + ch.len() >= *e {
                o.hits_req.push(hits.load(Ordering::SeqCst));
            }
        }
        written += ch.len();
        net.peer_write(id, ch);
        turn().await;
    }
    match then {
        1 => net.peer_close(id, false),
        2 => net.peer_close(id, true),
        _ => {}
    }
    // read what comes back, within a budget of runtime turns and wall-clock
    let t0 = Instant::now();
    let mut turns = 0u64;
    loop {
        let d = net.peer_read(id, usize::MAX);
        o.raw.extend_from_slice(&d);
        o.responses = parse_responses(&o.raw);
        if o.responses.len() >= expect_responses && expect_responses > 0 {
            break;
        }
        if net.local_closed(id) {
            o.closed_by_server = true;
            let d = net.peer_read(id, usize::MAX);
            o.raw.extend_from_slice(&d);
            o.responses = parse_responses(&o.raw);
            break;
        }
        turns += 1;
        let holding = c.kind == Kind::HalfOpen && !release.load(Ordering::SeqCst);
        let limit = if holding { 4_000_000 } else if expect_responses == 0 { 300 } else { 2_000_000 };
        if turns > limit || t0.elapsed() > Duration::from_secs(if holding { 8 } else { 5 }) {
            break;
        }
        turn().await;
    }
    if then == 0 {
        net.peer_close(id, false);
    }
    // (the ticker increments the counter first and `hits` second: the counter is at most one ahead)
    o.hits_after = hits.load(Ordering::SeqCst) + 1;
    o
}

pub struct C18Http;

impl Scenario for C18Http {
    type Plan = Plan;
    fn property(&self) -> &'static str {
        "C18"
    }
    fn name(&self) -> &'static str {
        "http"
    }
    fn rule(&self) -> &'static str {
        "one run = one seeded allowlist (entries in both documented syntaxes, nested/overlapping, v4/v6, or none) and one seeded sequence of groups of concurrent connections (well-formed GETs on various paths from peers inside / outside / at the edges of the listed networks, pipelined requests, garbage, truncated heads, half-open and reset connections, seed-chunked writes) followed by a final probe; distinct = distinct hash of the per-connection outcomes; non-trivial = at least one connection was made"
    }
    fn fault_rates(&self) -> Vec<u64> {
        vec![0, 0, 20, 100]
    }
    fn replay_exact(&self) -> bool {
        false
    }
    fn plan(&self, r: &mut Rng, tier: Tier) -> Plan {
        let allow = if r.chance(250) {
            None
        } else {
            let n = r.range(1, 4);
            let mut v: Vec<usize> = (0..n).map(|_| r.below(ALLOW_POOL.len() as u64) as usize).collect();
            v.dedup();
            Some(v)
        };
        let ngroups = r.range(1, if tier == Tier::Thorough { 5 } else { 3 });
        let groups = (0..ngroups)
            .map(|_| {
                let k = *r.pick(&[1u64, 1, 2, 3, 6]);
                (0..k)
                    .map(|_| Conn {
                        peer: r.below(PEER_POOL.len() as u64) as usize,
                        kind: match r.below(12) {
                            0..=5 => Kind::Get(r.below(PATHS.len() as u64) as usize),
                            6 => Kind::Pipelined(r.below(PATHS.len() as u64) as usize, r.below(PATHS.len() as u64) as usize),
                            7 => Kind::Garbage(r.below(3) as u8),
                            8 => Kind::TruncatedHead,
                            9 => Kind::HalfOpen,
                            10 => Kind::ResetMidRequest,
                            _ => Kind::ResetAfterRequest,
                        },
                        chunk: *r.pick(&[1usize, 3, 7, 64, 100_000]),
                        delay: *r.pick(&[0u32, 0, 0, 5, 40, 300]),
                        idle: *r.pick(&[0u32, 0, 0, 0, 30, 400]),
                    })
                    .collect()
            })
            .collect();
        Plan { allow, groups, allow_first: r.chance(400), bad_storm: if r.chance(15) { 70 } else { 0 }, heavy: if r.chance(60) { 3000 } else { 0 }, stall_render_s: if r.chance(40) { *r.pick(&[1u32, 6, 30, 600]) } else { 0 } }
    }
    fn execute(&self, plan: &Plan, sched: &SchedSpec) -> RunReport {
        let net = simnet::install(sched.faults.clone());
        simnet::ALLOW_OUTSIDE_SIM.store(true, Ordering::SeqCst);
        let addr: SocketAddr = "127.0.0.1:9000".parse().unwrap();
        let p = plan.clone();
        let net2 = net.clone();
        let stalled: Arc<std::sync::Mutex<Option<Outcome>>> = Arc::new(std::sync::Mutex::new(None));
        let stalled2 = stalled.clone();
        // run on a thread of its own so that a wedged runtime cannot wedge the worker's bookkeeping
        let handle = std::thread::spawn(move || -> Result<(Vec<Vec<Outcome>>, Outcome, Vec<(usize, String)>), String> {
            let mut rtb = tokio::runtime::Builder::new_current_thread();
            rtb.enable_time();
            if p.stall_render_s > 0 {
                rtb.max_blocking_threads(1);
            }
            let rt = rtb.build().map_err(|e| e.to_string())?;
            rt.block_on(async move {
                let mut b = PrometheusBuilder::new();
                if !p.allow_first {
                    b = b.with_http_listener(addr);
                }
                let mut rejected = vec![];
                if let Some(entries) = &p.allow {
                    for e in entries {
                        b = match PrometheusBuilder::add_allowed_address(b, ALLOW_POOL[*e]) {
                            Ok(b) => b,
                            Err(err) => {
                                rejected.push((*e, format!("{}", err)));
                                // continue with a fresh builder carrying the entries accepted so far is
                                // not possible (the builder was consumed): report and stop
                                return Ok((vec![], Outcome::default(), rejected));
                            }
                        };
                    }
                }
                if p.allow_first {
                    b = b.with_http_listener(addr);
                }
                let (recorder, fut) = b.build().map_err(|e| format!("{}", e))?;
                let server = tokio::spawn(fut);
                let hits = Arc::new(AtomicU64::new(0));
                let counter = recorder.register_counter(&Key::from_name("c18_hits"), &MD);
                for i in 0..p.heavy {
                    recorder.register_gauge(&Key::from_parts("c18_filler", vec![metrics::Label::new("i", i.to_string())]), &MD).set(i as f64);
                }
                let mut all = vec![];
                let mut port = 40_000u16;
                // many connections that end badly, one after the other: none of them may cost the
                // endpoint anything that later clients need
                for i in 0..p.bad_storm {
                    let c = Conn { peer: (0..PEER_POOL.len()).find(|x| model_allowed(&p.allow, *x)).unwrap_or(0), kind: if i % 2 == 0 { Kind::Garbage(1) } else { Kind::TruncatedHead }, chunk: 100_000, delay: 0, idle: 0 };
                    let _ = peer_task(net2.clone(), addr, c, hits.clone(), 20_000 + i as u16, Arc::new(std::sync::atomic::AtomicBool::new(true))).await;
                }
                for g in &p.groups {
                    counter.increment(1);
                    hits.fetch_add(1, Ordering::SeqCst);
                    let mut tasks = vec![];
                    let release = Arc::new(std::sync::atomic::AtomicBool::new(false));
                    for c in g {
                        port += 1;
                        tasks.push(Some(tokio::spawn(peer_task(net2.clone(), addr, c.clone(), hits.clone(), port, release.clone()))));
                    }
                    // metrics keep changing while the group is being served: a ticker task bumps the
                    // counter between the runtime's turns until the group's requests are through
                    counter.increment(1);
                    hits.fetch_add(1, Ordering::SeqCst);
                    let ticking = Arc::new(std::sync::atomic::AtomicBool::new(true));
                    let ticker = {
                        let (ticking, counter, hits) = (ticking.clone(), counter.clone(), hits.clone());
                        tokio::spawn(async move {
                            let mut n = 0u32;
                            while ticking.load(Ordering::SeqCst) && n < 200_000 {
                                counter.increment(1);
                                hits.fetch_add(1, Ordering::SeqCst);
                                n += 1;
                                for _ in 0..3 {
                                    turn().await;
                                }
                            }
                        })
                    };
                    // half-open connections are released only when everybody else has been served
                    let mut outs: Vec<Option<Outcome>> = g.iter().map(|_| None).collect();
                    for pass in 0..2 {
                        for (i, c) in g.iter().enumerate() {
                            if (c.kind == Kind::HalfOpen) == (pass == 1) {
                                let t = tasks[i].take().unwrap();
                                outs[i] = Some(t.await.map_err(|e| format!("peer task: {}", e))?);
                            }
                        }
                        release.store(true, Ordering::SeqCst);
                        ticking.store(false, Ordering::SeqCst);
                    }
                    let _ = ticker.await;
                    all.push(outs.into_iter().map(|o| o.unwrap()).collect());
                }
                // after any prefix of bad connections a well-formed request from an allowed peer is answered
                net2.faults.lock().unwrap().disable();
                let probe_peer = (0..PEER_POOL.len()).find(|i| model_allowed(&p.allow, *i));
                if let (true, Some(pp)) = (p.stall_render_s > 0, probe_peer) {
                    tokio::time::pause();
                    let (tx, rx) = std::sync::mpsc::channel::<()>();
                    let blocker = tokio::task::spawn_blocking(move || {
                        let _ = rx.recv_timeout(Duration::from_secs(10));
                    });
                    let t = tokio::spawn(peer_task(net2.clone(), addr, Conn { peer: pp, kind: Kind::Get(0), chunk: 100_000, delay: 0, idle: 0 }, hits.clone(), 49_000, Arc::new(std::sync::atomic::AtomicBool::new(true))));
                    for _ in 0..300 {
                        turn().await;
                    }
                    tokio::time::advance(Duration::from_secs(p.stall_render_s as u64)).await;
                    for _ in 0..100 {
                        turn().await;
                    }
                    let _ = tx.send(());
                    let _ = blocker.await;
                    let o = t.await.map_err(|e| format!("peer task: {}", e))?;
                    tokio::time::resume();
                    *stalled2.lock().unwrap() = Some(o);
                }
                let probe = match probe_peer {
                    Some(pp) => peer_task(net2.clone(), addr, Conn { peer: pp, kind: Kind::Get(0), chunk: 100_000, delay: 0, idle: 0 }, hits.clone(), 50_000, Arc::new(std::sync::atomic::AtomicBool::new(true))).await,
                    None => Outcome { responses: vec![(200, b"# no allowed peer in the pool\n".to_vec())], ..Default::default() },
                };
                server.abort();
                drop(recorder);
                Ok((all, probe, rejected))
            })
        });
        let res = handle.join();
        simnet::ALLOW_OUTSIDE_SIM.store(false, Ordering::SeqCst);
        simnet::uninstall();
        let faults = net.faults.lock().unwrap().fired.clone();
        let mut rep = RunReport { violation: None, sim: None, faults: faults.clone(), counters: Default::default(), history_hash: 0, observations: String::new() };
        let mut v = None;
        match res {
            Err(_) => v = violation("panic", "the runtime thread panicked".into()),
            Ok(Err(e)) => v = violation("build-failed", e),
            Ok(Ok((all, probe, rejected))) => {
                if let Some((e, err)) = rejected.first() {
                    v = violation("allowlist-entry-rejected", format!("add_allowed_address({:?}) failed ({}), although the builder documents that it takes 'an IP address or subnet'", ALLOW_POOL[*e], err));
                }
                let mut obs = String::new();
                for (gi, g) in all.iter().enumerate() {
                    for (ci, o) in g.iter().enumerate() {
                        let c = &plan.groups[gi][ci];
                        let allowed = model_allowed(&plan.allow, c.peer);
                        let disturbed = faults.iter().any(|_| true);
                        obs.push_str(&format!("g{}c{}:{:?}:{}:{:?};", gi, ci, c.kind, allowed, o.responses.iter().map(|r| (r.0, r.1.len())).collect::<Vec<_>>()));
                        if v.is_some() {
                            continue;
                        }
                        let raw_s = String::from_utf8_lossy(&o.raw).to_string();
                        if !allowed && raw_s.contains("c18_hits") {
                            v = violation("metrics-leaked-to-forbidden-peer", format!("peer {} is in none of the listed networks {:?} but received metric data", PEER_POOL[c.peer], plan.allow.as_ref().map(|a| a.iter().map(|e| ALLOW_POOL[*e]).collect::<Vec<_>>())));
                            continue;
                        }
                        let paths: Vec<usize> = match &c.kind {
                            Kind::Get(p) => vec![*p],
                            Kind::Pipelined(a, b) => vec![*a, *b],
                            _ => vec![],
                        };
                        if paths.is_empty() {
                            continue;
                        }
                        if o.responses.len() < paths.len() {
                            if !disturbed {
                                v = violation("request-not-answered", format!("peer {} sent {} well-formed request(s) ({:?}) and got {} response(s) within the budget", PEER_POOL[c.peer], paths.len(), c.kind, o.responses.len()));
                            }
                            continue;
                        }
                        for (ri, pi) in paths.iter().enumerate() {
                            let (status, body) = &o.responses[ri];
                            if !allowed {
                                if *status != 403 || !body.is_empty() {
                                    v = violation("forbidden-peer-served", format!("peer {} lies in none of {:?} but got status {} with a {}-byte body for {}", PEER_POOL[c.peer], plan.allow.as_ref().map(|a| a.iter().map(|e| ALLOW_POOL[*e]).collect::<Vec<_>>()), status, body.len(), PATHS[*pi]));
                                }
                                continue;
                            }
                            // (a connection whose peer address could not be read is, with an allowlist
                            // configured, treated as outside it: 403 with an empty body is then correct)
                            let peer_unreadable = faults.iter().any(|f| f.kind == "peer_addr_fail" && f.stream == format!("peer:{}", o.conn));
                            if peer_unreadable && *status == 403 && body.is_empty() {
                                continue;
                            }
                            if *status != 200 {
                                v = violation("allowed-peer-refused", format!("peer {} lies inside the allowlist {:?} (or none is configured) but got status {} for {}", PEER_POOL[c.peer], plan.allow.as_ref().map(|a| a.iter().map(|e| ALLOW_POOL[*e]).collect::<Vec<_>>()), status, PATHS[*pi]));
                                continue;
                            }
                            let text = String::from_utf8_lossy(body).to_string();
                            if PATHS[*pi] == "/health" {
                                if text != "OK" {
                                    v = violation("health-body", format!("/health answered {:?}", text));
                                }
                                continue;
                            }
                            match promtext::parse(&text) {
                                Err(e) => v = violation("scrape-body-malformed", format!("GET {} body does not parse: {}", PATHS[*pi], e)),
                                Ok(fams) => {
                                    let val = fams.iter().find(|f| f.name == "c18_hits").and_then(|f| f.samples.first()).and_then(|s| s.value.parse::<u64>().ok());
                                    // not older than the moment the client completed this request
                                    let lower = o.hits_req.get(ri).copied().unwrap_or(o.hits_before);
                                    match val {
                                        Some(x) if x >= lower && x <= o.hits_after => {}
                                        other => v = violation("scrape-body-stale", format!("GET {} shows c18_hits = {:?}; the counter was {} when the client connected, {} when it sent the last bytes of this request and {} when it had its answer", PATHS[*pi], other, o.hits_before, lower, o.hits_after)),
                                    }
                                }
                            }
                        }
                    }
                }
                if let (true, Some(o)) = (v.is_none(), stalled.lock().unwrap().clone()) {
                    rep.faults.push(FaultDecision { stream: "blocking-pool".into(), idx: 0, kind: "render_stall".into(), arg: plan.stall_render_s as u64 });
                    let shown = o.responses.first().and_then(|(st, body)| if *st == 200 { promtext::parse(&String::from_utf8_lossy(body)).ok() } else { None }).and_then(|fams| fams.iter().find(|f| f.name == "c18_hits").and_then(|f| f.samples.first()).and_then(|s| s.value.parse::<u64>().ok()));
                    match shown {
                        Some(x) if x >= o.hits_req.first().copied().unwrap_or(0) && x <= o.hits_after => {}
                        _ => v = violation("slow-scrape-not-served", format!("a GET /metrics from an allowed peer whose rendering was held up for {} s (blocking pool busy, clock advanced) got {:?} instead of 200 with the current rendering", plan.stall_render_s, o.responses.first().map(|r| (r.0, r.1.len())))),
                    }
                }
                if v.is_none() && rejected.is_empty() {
                    match probe.responses.first() {
                        Some((200, _)) => {}
                        other => v = violation("later-client-not-served", format!("after the scripted connections (garbage, half-open, resets included) a well-formed GET from an allowed peer got {:?}", other.map(|r| r.0))),
                    }
                }
                rep.count("connections", all.iter().map(|g| g.len() as u64).sum());
                rep.count("responses", all.iter().flatten().map(|o| o.responses.len() as u64).sum());
                rep.count("forbidden_responses", all.iter().flatten().flat_map(|o| o.responses.iter()).filter(|r| r.0 == 403).count() as u64);
                rep.observations = obs;
            }
        }
        rep.history_hash = crate::util::hash_str(&rep.observations) | 1;
        rep.violation = v;
        rep
    }
    fn shrink(&self, p: &Plan) -> Vec<Plan> {
        let mut out = vec![];
        if p.bad_storm > 0 {
            out.push(Plan { bad_storm: 0, ..p.clone() });
            out.push(Plan { bad_storm: p.bad_storm - 1, ..p.clone() });
        }
        if p.allow_first {
            out.push(Plan { allow_first: false, ..p.clone() });
        }
        if p.heavy > 0 {
            out.push(Plan { heavy: 0, ..p.clone() });
        }
        if p.stall_render_s > 1 {
            out.push(Plan { stall_render_s: p.stall_render_s / 2, ..p.clone() });
        }
        for i in 0..p.groups.len() {
            if p.groups.len() > 1 {
                let mut q = p.clone();
                q.groups.remove(i);
                out.push(q);
            }
            for j in 0..p.groups[i].len() {
                if p.groups[i].len() > 1 {
                    let mut q = p.clone();
                    q.groups[i].remove(j);
                    out.push(q);
                }
            }
        }
        if let Some(a) = &p.allow {
            for i in 0..a.len() {
                if a.len() > 1 {
                    let mut q = p.clone();
                    q.allow.as_mut().unwrap().remove(i);
                    out.push(q);
                }
            }
        }
        out
    }
    fn real_components(&self) -> Vec<&'static str> {
        vec!["PrometheusBuilder::{with_http_listener, add_allowed_address, build}", "HttpListeningExporter::{serve_tcp, process_tcp_stream, check_tcp_allowed, handle_http_request}", "hyper http1 server connection", "tokio current-thread runtime (task scheduler, spawn_blocking pool)", "PrometheusHandle::render"]
    }
    fn stub_components(&self) -> Vec<&'static str> {
        vec!["tokio::net::{TcpListener, TcpStream} (shim over the simulated listener/stream: arbitrary peer addresses, seeded short reads/writes, EINTR, resets)", "harness peers (tasks of the same runtime)"]
    }
    fn assumptions(&self) -> Vec<&'static str> {
        vec!["this scenario runs on tokio's own current-thread scheduler, not under dsim; spawn_blocking completion timing is the one scheduler the harness does not own, so outcomes are judged per connection and the run's trace is not replay-exact (the plan, peers, chunking and injected faults are)", "answers are awaited for at most 5 s of wall-clock per connection"]
    }
}
