//! C09 — DogStatsD payloads are valid, within the size limit, and account for every point.
//! Layer (i): the real `PayloadWriter` (through the guarded driver) driven through long histories
//! of writes and drains, reusing one writer across flush cycles exactly as `Forwarder::run` does.
//! Layer (ii), the whole exporter against the simulated agent socket, lives in c10.rs (`agent`).

use crate::framework::*;
use crate::oracles::dogstatsd as dd;
use dsim::Rng;
use metrics::{Key, Label};
use metrics_exporter_dogstatsd::__verif::WriterDriver;
use serde::{Deserialize, Serialize};
use std::sync::{Arc, Mutex};

#[derive(Clone, Debug, Serialize, Deserialize, PartialEq)]
pub enum W {
    Counter { name_len: usize, labels: Vec<(usize, usize)>, value: u64, ts: bool },
    Gauge { name_len: usize, labels: Vec<(usize, usize)>, bits: u64, ts: bool },
    /// `same_key`: written under the key of the previous Hist write (own values and sample rate)
    Hist { name_len: usize, labels: Vec<(usize, usize)>, values: Vec<u64>, rate: u8, dist: bool, #[serde(default)] same_key: bool },
    Drain,
}

#[derive(Clone, Debug, Serialize, Deserialize)]
pub struct Plan {
    pub max_len: usize,
    pub length_prefix: bool,
    pub prefix_len: usize,
    pub global_labels: Vec<(usize, usize)>,
    pub ops: Vec<W>,
}

pub const FLOATS: [u64; 12] = [
    0x0000000000000000, // 0
    0x3ff0000000000000, // 1
    0xbff8000000000000, // -1.5
    0x7ff8000000000000, // NaN
    0x7ff0000000000000, // inf
    0xfff0000000000000, // -inf
    0x7fefffffffffffff, // MAX
    0x0000000000000001, // min subnormal
    0x3fb999999999999a, // 0.1
    0x400921fb54442d18, // pi
    0xc1d26580b487e6b7, // -1234567890.123...
    0x43e0000000000000, // 2^63
];

fn name_of(idx: usize, len: usize) -> String {
    let mut s = format!("m{}", idx);
    while s.len() < len {
        s.push('x');
    }
    s
}
fn label_of(i: usize, (kl, vl): (usize, usize)) -> Label {
    let mut k = format!("k{}", i);
    while k.len() < kl {
        k.push('y');
    }
    let v: String = std::iter::repeat('v').take(vl).collect();
    Label::new(k, v)
}
fn rate_of(r: u8) -> Option<f64> {
    match r % 4 {
        0 => None,
        1 => Some(1.0),
        2 => Some(0.5),
        _ => Some(0.001),
    }
}
fn float_eq_token(tok: &str, bits: u64) -> bool {
    let want = f64::from_bits(bits);
    match tok.parse::<f64>() {
        Ok(v) => (v.is_nan() && want.is_nan()) || v.to_bits() == want.to_bits(),
        Err(_) => false,
    }
}

pub struct C09Writer;

impl Scenario for C09Writer {
    type Plan = Plan;
    fn property(&self) -> &'static str {
        "C09"
    }
    fn name(&self) -> &'static str {
        "writer"
    }
    fn rule(&self) -> &'static str {
        "one run = one seeded history of write_counter/gauge/histogram/distribution calls and drains (flush cycles) on ONE PayloadWriter with a seeded size limit, framing mode, prefix and label set, including metrics rejected for size followed by metrics that fit; distinct = distinct hash of the produced byte stream and write results; non-trivial = at least one payload was produced"
    }
    fn plan(&self, r: &mut Rng, tier: Tier) -> Plan {
        let max_len = *r.pick(&[0usize, 1, 8, 16, 24, 32, 48, 64, 100, 200, 1432, 8192]);
        let n = r.range(2, if tier == Tier::Thorough { 24 } else { 12 });
        let lab = |r: &mut Rng| -> Vec<(usize, usize)> { (0..r.below(4)).map(|_| (r.range(2, 9) as usize, *r.pick(&[0usize, 0, 1, 3, 8, 20]))).collect() };
        let big = if tier == Tier::Thorough { 3000 } else { 300 };
        let ops = (0..n)
            .map(|_| {
                let name_len = *r.pick(&[1usize, 2, 3, 5, 8, 12, 20, 40, max_len.saturating_sub(3), max_len + 5]);
                match r.below(10) {
                    0..=1 => W::Counter { name_len, labels: lab(r), value: *r.pick(&[0u64, 1, 42, u64::MAX, 1 << 40]), ts: r.chance(400) },
                    2..=3 => W::Gauge { name_len, labels: lab(r), bits: *r.pick(&FLOATS), ts: r.chance(400) },
                    4..=7 => {
                        let nv = *r.pick(&[0u64, 1, 2, 3, 7, 20, 64, 65, big]);
                        let nv = if nv > 100 && r.chance(700) { 30 } else { nv };
                        // rarely one flush cycle of well over 64 KiB (buffers may be trimmed after it)
                        let nv = if r.chance(12) { 9000 } else { nv };
                        W::Hist { name_len, labels: lab(r), values: (0..nv).map(|_| *r.pick(&FLOATS)).collect(), rate: r.below(4) as u8, dist: r.chance(500), same_key: r.chance(300) }
                    }
                    _ => W::Drain,
                }
            })
            .collect();
        Plan { max_len, length_prefix: r.chance(500), prefix_len: *r.pick(&[0usize, 0, 1, 4, 12, 30]), global_labels: lab(r), ops }
    }
    fn execute(&self, plan: &Plan, sched: &SchedSpec) -> RunReport {
        let bad: Arc<Mutex<Option<(String, String)>>> = Arc::new(Mutex::new(None));
        let obs: Arc<Mutex<String>> = Arc::new(Mutex::new(String::new()));
        let produced: Arc<Mutex<u64>> = Arc::new(Mutex::new(0));
        let p = plan.clone();
        let (b2, o2, pr2) = (bad.clone(), obs.clone(), produced.clone());
        let sim = simulate(sched, 10_000, move || {
            let mut w = WriterDriver::new(p.max_len, p.length_prefix);
            let prefix: Option<String> = if p.prefix_len == 0 { None } else { Some(std::iter::repeat('p').take(p.prefix_len).collect()) };
            let globals: Vec<Label> = p.global_labels.iter().enumerate().map(|(i, l)| label_of(100 + i, *l)).collect();
            // expectations since the last drain: per write, (index, payloads_written, dropped)
            let mut pending: Vec<(usize, u64, u64)> = vec![];
            let mut fail = |c: &str, d: String| {
                let mut b = b2.lock().unwrap();
                if b.is_none() {
                    *b = Some((c.to_string(), d));
                }
            };
            let mut ops = p.ops.clone();
            ops.push(W::Drain);
            // effective key of every write: (name index, name length, labels)
            let mut eff: Vec<(usize, usize, Vec<(usize, usize)>)> = vec![];
            let mut last_hist: Option<(usize, usize, Vec<(usize, usize)>)> = None;
            for (i, op) in ops.iter().enumerate() {
                let e = match op {
                    W::Counter { name_len, labels, .. } | W::Gauge { name_len, labels, .. } => (i, *name_len, labels.clone()),
                    W::Hist { name_len, labels, same_key, .. } => {
                        let e = match (&last_hist, same_key) {
                            (Some(l), true) => l.clone(),
                            _ => (i, *name_len, labels.clone()),
                        };
                        last_hist = Some(e.clone());
                        e
                    }
                    W::Drain => (i, 0, vec![]),
                };
                eff.push(e);
            }
            for (i, op) in ops.iter().enumerate() {
                dsim::point("c09.op");
                let (name_idx, name_len, labels) = eff[i].clone();
                let key = Key::from_parts(name_of(name_idx, name_len), labels.iter().enumerate().map(|(j, l)| label_of(j, *l)).collect::<Vec<_>>());
                match op {
                    W::Counter { value, ts, .. } => {
                        let r = w.write_counter(&key, *value, if *ts { Some(1_700_000_000) } else { None }, prefix.as_deref(), &globals);
                        pending.push((i, r.0, r.1));
                    }
                    W::Gauge { bits, ts, .. } => {
                        let r = w.write_gauge(&key, f64::from_bits(*bits), if *ts { Some(1_700_000_000) } else { None }, prefix.as_deref(), &globals);
                        pending.push((i, r.0, r.1));
                    }
                    W::Hist { values, rate, dist, .. } => {
                        let vals: Vec<f64> = values.iter().map(|b| f64::from_bits(*b)).collect();
                        let r = if *dist { w.write_distribution(&key, vals, rate_of(*rate), prefix.as_deref(), &globals) } else { w.write_histogram(&key, vals, rate_of(*rate), prefix.as_deref(), &globals) };
                        pending.push((i, r.0, r.1));
                    }
                    W::Drain => {
                        let raw = w.drain();
                        *pr2.lock().unwrap() += raw.len() as u64;
                        o2.lock().unwrap().push_str(&format!("drain@{}:{:?};", i, raw.iter().map(|x| crate::util::hash_str(&String::from_utf8_lossy(x))).collect::<Vec<_>>()));
                        // strip and check the length prefix
                        let mut payloads: Vec<Vec<u8>> = vec![];
                        for (pi, pl) in raw.iter().enumerate() {
                            if p.length_prefix {
                                if pl.len() < 4 {
                                    fail("frame-too-short", format!("drain at op {}: payload {} has {} bytes, no room for a length prefix", i, pi, pl.len()));
                                    continue;
                                }
                                let n = u32::from_le_bytes([pl[0], pl[1], pl[2], pl[3]]) as usize;
                                if n != pl.len() - 4 {
                                    fail("length-prefix-wrong", format!("drain at op {}: payload {} announces {} bytes but carries {} ({:?}…)", i, pi, n, pl.len() - 4, String::from_utf8_lossy(&pl[..pl.len().min(24)])));
                                }
                                payloads.push(pl[4..].to_vec());
                            } else {
                                payloads.push(pl.clone());
                            }
                        }
                        for (pi, pl) in payloads.iter().enumerate() {
                            if pl.len() > p.max_len {
                                fail("payload-too-long", format!("drain at op {}: payload {} is {} bytes, limit {}", i, pi, pl.len(), p.max_len));
                            }
                        }
                        // attribute payloads to writes, in order
                        let expected_total: u64 = pending.iter().map(|x| x.1).sum();
                        if expected_total != payloads.len() as u64 {
                            fail("payload-count", format!("drain at op {}: writes reported {} payloads written, {} were yielded", i, expected_total, payloads.len()));
                            pending.clear();
                            continue;
                        }
                        let mut cursor = 0usize;
                        for (wi, written, dropped) in pending.drain(..) {
                            let mine = &payloads[cursor..cursor + written as usize];
                            cursor += written as usize;
                            let wop = &ops[wi];
                            let (name_idx, name_len, labels) = eff[wi].clone();
                            let want_name = match &prefix {
                                Some(px) => format!("{}.{}", px, name_of(name_idx, name_len)),
                                None => name_of(name_idx, name_len),
                            };
                            let mut want_tags: Vec<(String, Option<String>)> = vec![];
                            for l in globals.iter().cloned().chain(labels.iter().enumerate().map(|(j, l)| label_of(j, *l))) {
                                want_tags.push((l.key().to_string(), if l.value().is_empty() { None } else { Some(l.value().to_string()) }));
                            }
                            let mut got_values: Vec<String> = vec![];
                            for pl in mine {
                                match dd::parse(pl) {
                                    Err(e) => fail("payload-malformed", format!("write {} ({:?}): {} in {:?}", wi, kind_of(wop), e, String::from_utf8_lossy(&pl[..pl.len().min(80)]))),
                                    Ok(m) => {
                                        if m.name != want_name {
                                            fail("payload-name", format!("write {}: name {:?}, expected {:?}", wi, &m.name[..m.name.len().min(40)], &want_name[..want_name.len().min(40)]));
                                        }
                                        if m.tags != want_tags {
                                            fail("payload-tags", format!("write {}: tags {:?}, expected global then own {:?}", wi, m.tags, want_tags));
                                        }
                                        let (want_typ, want_ts, want_rate) = match wop {
                                            W::Counter { ts, .. } => ('c', *ts, None),
                                            W::Gauge { ts, .. } => ('g', *ts, None),
                                            W::Hist { dist, rate, .. } => (if *dist { 'd' } else { 'h' }, false, rate_of(*rate)),
                                            W::Drain => unreachable!(),
                                        };
                                        if m.typ != want_typ || m.timestamp.is_some() != want_ts {
                                            fail("payload-type", format!("write {}: type {} ts {:?}, expected {} ts {}", wi, m.typ, m.timestamp, want_typ, want_ts));
                                        }
                                        let rate_ok = match (want_rate, &m.rate) {
                                            (None, None) => true,
                                            (Some(r), Some(t)) => t.parse::<f64>().ok() == Some(r),
                                            _ => false,
                                        };
                                        if !rate_ok {
                                            fail("payload-rate", format!("write {}: sample rate {:?}, expected {:?}", wi, m.rate, want_rate));
                                        }
                                        got_values.extend(m.values);
                                    }
                                }
                            }
                            // every input point in exactly one payload, in order, or reported dropped
                            match wop {
                                W::Counter { value, .. } => {
                                    let ok = (written == 1 && dropped == 0 && got_values.len() == 1 && got_values[0].parse::<u64>().ok() == Some(*value)) || (written == 0 && dropped == 1);
                                    if !ok {
                                        fail("point-accounting", format!("write {} counter {}: written {} dropped {} values {:?}", wi, value, written, dropped, got_values));
                                    }
                                }
                                W::Gauge { bits, .. } => {
                                    let ok = (written == 1 && dropped == 0 && got_values.len() == 1 && float_eq_token(&got_values[0], *bits)) || (written == 0 && dropped == 1);
                                    if !ok {
                                        fail("point-accounting", format!("write {} gauge {:?}: written {} dropped {} values {:?}", wi, f64::from_bits(*bits), written, dropped, got_values));
                                    }
                                }
                                W::Hist { values, .. } => {
                                    if got_values.len() as u64 + dropped != values.len() as u64 {
                                        fail("point-accounting", format!("write {} histogram: {} input points, {} emitted + {} reported dropped", wi, values.len(), got_values.len(), dropped));
                                    } else {
                                        // emitted values are a subsequence of the input, in order
                                        let mut it = values.iter();
                                        for g in &got_values {
                                            let mut found = false;
                                            for b in it.by_ref() {
                                                if float_eq_token(g, *b) {
                                                    found = true;
                                                    break;
                                                }
                                            }
                                            if !found {
                                                fail("value-order-or-precision", format!("write {} histogram: emitted value {:?} is not the next input value at round-trip precision", wi, g));
                                                break;
                                            }
                                        }
                                    }
                                }
                                W::Drain => {}
                            }
                        }
                    }
                }
            }
        });
        let mut rep = RunReport::ok(sim);
        let simr = rep.sim.as_ref().unwrap();
        let mut v = None;
        if !simr.panics.is_empty() {
            v = violation("panic", format!("serialisation panicked: {:?}", simr.panics));
        } else if let Some((c, d)) = bad.lock().unwrap().clone() {
            v = violation(&c, d);
        }
        rep.observations = obs.lock().unwrap().clone();
        rep.history_hash = crate::util::hash_str(&rep.observations);
        let n = *produced.lock().unwrap();
        rep.count("payloads", n);
        if let Some(s) = rep.sim.as_mut() {
            if n > 0 {
                s.switches = s.switches.max(1);
            }
        }
        rep.violation = v;
        rep
    }
    fn shrink(&self, p: &Plan) -> Vec<Plan> {
        let mut out = vec![];
        for i in 0..p.ops.len() {
            let mut q = p.clone();
            q.ops.remove(i);
            out.push(q);
        }
        for i in 0..p.ops.len() {
            let mut q = p.clone();
            let changed = match &mut q.ops[i] {
                W::Hist { values, labels, .. } => {
                    if values.len() > 1 {
                        values.truncate(values.len() / 2);
                        true
                    } else if !labels.is_empty() {
                        labels.pop();
                        true
                    } else {
                        false
                    }
                }
                W::Counter { labels, .. } | W::Gauge { labels, .. } => {
                    if !labels.is_empty() {
                        labels.pop();
                        true
                    } else {
                        false
                    }
                }
                _ => false,
            };
            if changed {
                out.push(q);
            }
        }
        if !p.global_labels.is_empty() {
            let mut q = p.clone();
            q.global_labels.pop();
            out.push(q);
        }
        if p.prefix_len > 0 {
            let mut q = p.clone();
            q.prefix_len = 0;
            out.push(q);
        }
        out
    }
    fn real_components(&self) -> Vec<&'static str> {
        vec!["metrics_exporter_dogstatsd::writer::PayloadWriter (write_counter/gauge/histogram/distribution, commit, payloads, Payloads::drop)", "write_metric_trailer"]
    }
    fn stub_components(&self) -> Vec<&'static str> {
        vec!["the flush loop around the writer (histories of writes and drains generated by the harness through the guarded driver)"]
    }
    fn assumptions(&self) -> Vec<&'static str> {
        vec!["names, label keys and values use an alphabet without DogStatsD delimiters (the property quantifies over lengths and values, not delimiter injection)"]
    }
}

fn kind_of(w: &W) -> &'static str {
    match w {
        W::Counter { .. } => "counter",
        W::Gauge { .. } => "gauge",
        W::Hist { .. } => "histogram",
        W::Drain => "drain",
    }
}
