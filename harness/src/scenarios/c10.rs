//! C10 — DogStatsD aggregation conserves counts across flushes under any interleaving.
//! (i) `flush`: 1–3 updater threads ∥ a flusher thread calling the real `State::flush` through the
//! guarded driver; every atomic step of AtomicCounter/AtomicGauge/bucket is a sync point.
//! (ii) `agent`: the whole exporter from `DogStatsDBuilder::build` — forwarder loop on virtual
//! time, client state machine — against the simulated UDP / unixgram / unix-stream agent socket
//! with send faults.

use crate::framework::*;
use crate::oracles::dogstatsd as dd;
use dsim::Rng;
use metrics::{Key, Label, Level, Metadata, Recorder};
use metrics_exporter_dogstatsd::__verif::{Config as DrvConfig, FlushDriver};
use serde::{Deserialize, Serialize};
use std::collections::BTreeMap;
use std::sync::{Arc, Mutex};

static MD: Metadata<'static> = Metadata::new("c10", Level::INFO, None);

#[derive(Clone, Debug, Serialize, Deserialize, PartialEq)]
pub enum Op {
    CInc(u64),
    /// a second increment-only counter with the same name and another label value
    CInc2(u64),
    /// absolute: the plan stores the delta to the previous absolute value of that thread
    CAbs(u64),
    GSet,
    /// a second gauge moved by increments (positive) and decrements (negative) only
    GAdd(i64),
    HRec,
    Flush,
    /// (agent scenarios) a histogram value whose text is about twice as long as HRec's, so that a
    /// small payload limit can reject it while HRec values still fit
    HLong,
}

#[derive(Clone, Debug, Serialize, Deserialize)]
pub struct Cfg {
    pub aggressive: bool,
    pub prefix: bool,
    pub global_label: bool,
    pub as_distributions: bool,
}

#[derive(Clone, Debug, Serialize, Deserialize)]
pub struct Plan {
    pub cfg: Cfg,
    pub updaters: Vec<Vec<Op>>,
    /// harness sync points between the flusher's flushes
    pub flusher: Vec<u8>,
    pub abs_start: u64,
    /// histogram values recorded before the threads start (the storage keeps 64 per block, so one
    /// flush then hands its values over in several chunks)
    #[serde(default)]
    pub hist_prefill: u32,
}

#[derive(Clone, Debug)]
pub struct Ev {
    pub tid: u32,
    pub inv: u64,
    pub ret: u64,
    pub op: Op,
    pub value: u64,
    pub payloads: Vec<Vec<u8>>,
}

/// added to a tag to make its text long: (2^20 + n) + 0.123456789 prints 17 characters
pub const LONG_FRACTION: f64 = 0.123456789;

pub fn key_for(op: &Op) -> Option<Key> {
    match op {
        Op::CInc(_) => Some(Key::from_parts("c_inc", vec![Label::new("own", "1")])),
        Op::CInc2(_) => Some(Key::from_parts("c_inc", vec![Label::new("own", "2")])),
        Op::CAbs(_) => Some(Key::from_name("c_abs")),
        Op::GSet => Some(Key::from_parts("g_one", vec![Label::new("own", "1")])),
        Op::GAdd(_) => Some(Key::from_name("g_acc")),
        Op::HRec | Op::HLong => Some(Key::from_name("h_one")),
        Op::Flush => None,
    }
}

pub struct C10Flush;

impl Scenario for C10Flush {
    type Plan = Plan;
    fn property(&self) -> &'static str {
        "C10"
    }
    fn name(&self) -> &'static str {
        "flush"
    }
    fn horizon(&self) -> u64 {
        700
    }
    fn plan(&self, r: &mut Rng, tier: Tier) -> Plan {
        let cfg = Cfg { aggressive: r.chance(500), prefix: r.chance(400), global_label: r.chance(400), as_distributions: r.chance(500) };
        let max_ops = if tier == Tier::Thorough { 8 } else { 5 };
        let nupd = r.range(1, 3);
        let mut updaters = vec![];
        for i in 0..nupd {
            let n = r.range(1, max_ops);
            updaters.push(
                (0..n)
                    .map(|_| match r.below(10) {
                        0..=2 => Op::CInc(r.range(1, 9)),
                        3 => Op::CInc2(r.range(1, 9)),
                        4..=5 => {
                            if i == 0 {
                                Op::CAbs(r.range(0, 7))
                            } else {
                                Op::CInc(r.range(1, 9))
                            }
                        }
                        6 => Op::GSet,
                        7 => {
                            if r.chance(500) {
                                Op::GSet
                            } else {
                                Op::GAdd(*r.pick(&[1i64, 2, 3, 5, -1, -2]))
                            }
                        }
                        _ => Op::HRec,
                    })
                    .collect(),
            );
        }
        let nf = r.range(1, 5);
        Plan { cfg, updaters, flusher: (0..nf).map(|_| r.below(4) as u8).collect(), abs_start: *r.pick(&[0u64, 1, 5, 1000, u64::MAX / 2]), hist_prefill: *r.pick(&[0u32, 0, 0, 0, 63, 65, 130]) }
    }
    fn execute(&self, plan: &Plan, sched: &SchedSpec) -> RunReport {
        let hist: Arc<Mutex<Vec<Ev>>> = Arc::new(Mutex::new(vec![]));
        let p = plan.clone();
        let h2 = hist.clone();
        let sim = simulate(sched, 200_000, move || {
            let mut labels = vec![];
            if p.cfg.global_label {
                labels.push(Label::new("glob", "x"));
            }
            let mut drv = FlushDriver::new(DrvConfig {
                aggressive: p.cfg.aggressive,
                histogram_sampling: false,
                histogram_reservoir_size: 1024,
                histograms_as_distributions: p.cfg.as_distributions,
                global_labels: labels,
                global_prefix: if p.cfg.prefix { Some("pre".to_string()) } else { None },
                max_payload_len: 1432,
                length_prefix: false,
            });
            let rec = Arc::new(drv.recorder());
            if p.hist_prefill > 0 {
                dsim::passthrough(true);
                let key = key_for(&Op::HRec).unwrap();
                for i in 0..p.hist_prefill {
                    let tag = (1u64 << 40) | (i as u64 + 1);
                    rec.register_histogram(&key, &MD).record(tag as f64);
                    h2.lock().unwrap().push(Ev { tid: 0, inv: 0, ret: 0, op: Op::HRec, value: tag, payloads: vec![] });
                }
                dsim::passthrough(false);
            }
            let mut hs = vec![];
            for (ti, ops) in p.updaters.iter().enumerate() {
                let ops = ops.clone();
                let rec = rec.clone();
                let hist = h2.clone();
                let abs_start = p.abs_start;
                hs.push(dsim::spawn(&format!("u{}", ti + 1), move || {
                    let tid = dsim::tid();
                    let mut seq = 0u64;
                    let mut abs = abs_start;
                    for op in ops {
                        dsim::point("c10.op");
                        seq += 1;
                        let tag = ((tid as u64) << 20) | seq;
                        let key = key_for(&op).unwrap();
                        let inv = dsim::step();
                        let value = match &op {
                            Op::CInc(v) | Op::CInc2(v) => {
                                rec.register_counter(&key, &MD).increment(*v);
                                *v
                            }
                            Op::CAbs(d) => {
                                abs = abs.wrapping_add(*d);
                                rec.register_counter(&key, &MD).absolute(abs);
                                abs
                            }
                            Op::GSet => {
                                rec.register_gauge(&key, &MD).set(tag as f64);
                                tag
                            }
                            Op::GAdd(d) => {
                                if *d >= 0 {
                                    rec.register_gauge(&key, &MD).increment(*d as f64);
                                } else {
                                    rec.register_gauge(&key, &MD).decrement(-*d as f64);
                                }
                                0
                            }
                            Op::HRec => {
                                rec.register_histogram(&key, &MD).record(tag as f64);
                                tag
                            }
                            Op::HLong => {
                                rec.register_histogram(&key, &MD).record(tag as f64 + LONG_FRACTION);
                                tag
                            }
                            Op::Flush => 0,
                        };
                        let ret = dsim::step();
                        hist.lock().unwrap().push(Ev { tid, inv, ret, op, value, payloads: vec![] });
                    }
                }));
            }
            // the flusher is this (main) thread's child so that it can own the driver
            let hist = h2.clone();
            let gaps = p.flusher.clone();
            let fl = dsim::spawn_v("flusher", move || {
                for g in gaps {
                    for _ in 0..g {
                        dsim::point("c10.gap");
                    }
                    let inv = dsim::step();
                    let payloads = drv.flush();
                    let ret = dsim::step();
                    hist.lock().unwrap().push(Ev { tid: dsim::tid(), inv, ret, op: Op::Flush, value: 0, payloads });
                }
                drv
            });
            for h in hs {
                h.join();
            }
            let mut drv = join_value(fl);
            // quiescent tail: remaining deltas, the single idle zero, then silence
            for _ in 0..3 {
                let inv = dsim::step();
                let payloads = drv.flush();
                h2.lock().unwrap().push(Ev { tid: 0, inv, ret: u64::MAX - 1, op: Op::Flush, value: 1, payloads });
            }
        });
        let mut rep = RunReport::ok(sim);
        let simr = rep.sim.as_ref().unwrap();
        let h = hist.lock().unwrap().clone();
        let mut v = None;
        if !simr.panics.is_empty() {
            v = violation("panic", format!("{:?}", simr.panics));
        } else if simr.end == dsim::End::Completed {
            v = check_flush_history(&plan.cfg, &h, true);
        }
        let mut obs = String::new();
        for e in &h {
            obs.push_str(&format!("{}:{}-{}:{:?}:{}:{:?};", e.tid, e.inv, e.ret, e.op, e.value, e.payloads.iter().map(|p| strip_ts(p)).collect::<Vec<_>>()));
        }
        rep.history_hash = crate::util::hash_str(&obs);
        rep.observations = obs;
        rep.count("ops", h.len() as u64);
        rep.count("flushes", h.iter().filter(|e| e.op == Op::Flush).count() as u64);
        rep.violation = v;
        rep
    }
    fn shrink(&self, p: &Plan) -> Vec<Plan> {
        let mut out = vec![];
        if p.updaters.len() > 1 {
            for i in 0..p.updaters.len() {
                let mut q = p.clone();
                q.updaters.remove(i);
                out.push(q);
            }
        }
        for i in 0..p.updaters.len() {
            for j in 0..p.updaters[i].len() {
                if p.updaters[i].len() > 1 {
                    let mut q = p.clone();
                    q.updaters[i].remove(j);
                    out.push(q);
                }
            }
        }
        for i in 0..p.flusher.len() {
            if p.flusher.len() > 1 {
                let mut q = p.clone();
                q.flusher.remove(i);
                out.push(q);
            }
            if p.flusher[i] > 0 {
                let mut q = p.clone();
                q.flusher[i] -= 1;
                out.push(q);
            }
        }
        if p.abs_start != 0 {
            let mut q = p.clone();
            q.abs_start = 0;
            out.push(q);
        }
        out
    }
    fn real_components(&self) -> Vec<&'static str> {
        vec!["metrics_exporter_dogstatsd::state::State::flush + FlushState (idle logic)", "storage::{AtomicCounter, AtomicGauge, AtomicHistogram}", "DogStatsDRecorder + Registry", "writer::PayloadWriter", "AtomicBucket"]
    }
    fn stub_components(&self) -> Vec<&'static str> {
        vec!["thread scheduler (dsim)", "the forwarder loop and socket (the flush cycle is driven synchronously through the guarded driver; the `agent` scenario runs the real loop)"]
    }
}

/// The timestamp value is wall-clock: only its presence is ever compared or logged.
pub fn strip_ts(p: &[u8]) -> String {
    let s = String::from_utf8_lossy(p).to_string();
    match s.find("|T") {
        Some(i) => format!("{}|T*\n", &s[..i]),
        None => s,
    }
}

fn join_value<T: Send + 'static>(h: dsim::JoinHandleV<T>) -> T {
    h.join()
}

/// Oracle shared by the driver-level and the agent-level scenarios. `exact_tail` = the history
/// ends with three quiescent flushes.
pub fn check_flush_history(cfg: &Cfg, h: &[Ev], exact_tail: bool) -> Option<Violation> {
    let flushes: Vec<&Ev> = h.iter().filter(|e| e.op == Op::Flush).collect();
    let pre = if cfg.prefix { "pre." } else { "" };
    // per flush, parsed messages
    let mut parsed: Vec<Vec<dd::Msg>> = vec![];
    for f in &flushes {
        let mut ms = vec![];
        for p in &f.payloads {
            match dd::parse(p) {
                Ok(m) => ms.push(m),
                Err(e) => return violation("payload-malformed", format!("flush at {}: {} in {:?}", f.inv, e, String::from_utf8_lossy(p))),
            }
        }
        parsed.push(ms);
    }
    let want_ts = cfg.aggressive; // documented: Aggressive sends a timestamp, Conservative does not
    for (fi, ms) in parsed.iter().enumerate() {
        for m in ms {
            let base = m.name.strip_prefix(pre).unwrap_or("<missing prefix>");
            if !["c_inc", "c_abs", "g_one", "g_acc", "h_one"].contains(&base) {
                return violation("payload-name", format!("flush {}: unexpected metric name {:?} (prefix configured: {})", fi, m.name, cfg.prefix));
            }
            let mut want_tags: Vec<(String, Option<String>)> = vec![];
            if cfg.global_label {
                want_tags.push(("glob".into(), Some("x".into())));
            }
            if base == "c_inc" || base == "g_one" {
                want_tags.push(("own".into(), Some("1".into())));
            }
            let mut alt_tags = want_tags.clone();
            if base == "c_inc" {
                alt_tags.pop();
                alt_tags.push(("own".into(), Some("2".into())));
            }
            if m.tags != want_tags && m.tags != alt_tags {
                return violation("payload-tags", format!("flush {}: {} carries tags {:?}, expected {:?}", fi, m.name, m.tags, want_tags));
            }
            match m.typ {
                'c' | 'g' => {
                    if m.timestamp.is_some() != want_ts {
                        return violation(
                            "timestamp-vs-mode",
                            format!("{} message {} a timestamp in {} mode; the mode is documented to {} one", m.name, if m.timestamp.is_some() { "carries" } else { "lacks" }, if cfg.aggressive { "Aggressive" } else { "Conservative" }, if want_ts { "send" } else { "not send" }),
                        );
                    }
                }
                'h' | 'd' => {
                    if (m.typ == 'd') != cfg.as_distributions {
                        return violation("payload-type", format!("histogram sent as type {} with histograms_as_distributions={}", m.typ, cfg.as_distributions));
                    }
                }
                _ => return violation("payload-type", format!("unexpected type {}", m.typ)),
            }
        }
    }
    let get = |fi: usize, base: &str| -> Vec<&dd::Msg> { parsed[fi].iter().filter(|m| m.name.strip_prefix(pre) == Some(base)).collect() };
    // ---- increment-only counters: two series share the name c_inc and differ in one label
    for series in ["1", "2"] {
    let incs: Vec<&Ev> = h.iter().filter(|e| if series == "1" { matches!(e.op, Op::CInc(_)) } else { matches!(e.op, Op::CInc2(_)) }).collect();
    let mut cum: u128 = 0;
    let mut emissions: Vec<Option<u64>> = vec![];
    for (fi, f) in flushes.iter().enumerate() {
        let ms: Vec<&dd::Msg> = get(fi, "c_inc").into_iter().filter(|m| m.tags.iter().any(|t| t.0 == "own" && t.1.as_deref() == Some(series))).collect();
        if ms.len() > 1 {
            return violation("counter-sent-twice", format!("flush {} carries {} messages for c_inc{{own={}}}", fi, ms.len(), series));
        }
        match ms.first() {
            Some(m) => {
                let d: u64 = match m.values.first().and_then(|v| v.parse().ok()) {
                    Some(d) => d,
                    None => return violation("payload-malformed", format!("counter value {:?}", m.values)),
                };
                cum += d as u128;
                emissions.push(Some(d));
                let upper: u128 = incs.iter().filter(|e| e.inv < f.ret).map(|e| e.value as u128).sum();
                if cum > upper {
                    return violation("counter-delta-exceeds-added", format!("after flush {} (steps {}..{}) the deltas sent for c_inc add up to {} but only {} had been added by increments invoked before it returned", fi, f.inv, f.ret, cum, upper));
                }
            }
            None => emissions.push(None),
        }
    }
    let total: u128 = incs.iter().map(|e| e.value as u128).sum();
    if exact_tail && cum != total {
        let lost_sig = if cum < total { " sig:delta-behind-idle" } else { "" };
        return violation("counter-conservation", format!("c_inc{{own={}}}: increments add up to {} but the deltas of all flushes (three quiescent flushes included) add up to {}; emissions per flush {:?}{}", series, total, cum, emissions, lost_sig));
    }
    if exact_tail && emissions.len() >= 3 && !incs.is_empty() {
        let n = emissions.len();
        let (e1, e2, e3) = (emissions[n - 3], emissions[n - 2], emissions[n - 1]);
        if e3.is_some() {
            return violation("idle-counter-resent", format!("c_inc{{own={}}} was still sent by the third quiescent flush: {:?}", series, emissions));
        }
        if let Some(x) = e2 {
            if x != 0 {
                return violation("counter-delta-exceeds-added", format!("second quiescent flush sent a non-zero delta {}", x));
            }
            if e1 == Some(0) {
                return violation("idle-zero-sent-twice", format!("c_inc stopped changing but zero was sent by two consecutive quiescent flushes: {:?} sig:zero-twice", emissions));
            }
        }
        // a counter that stopped changing must have been sent as zero exactly once at the end
        let last_nonzero = emissions.iter().rposition(|e| matches!(e, Some(d) if *d > 0));
        let zeros_after = emissions.iter().skip(last_nonzero.map(|i| i + 1).unwrap_or(0)).filter(|e| **e == Some(0)).count();
        if zeros_after == 0 {
            return violation("idle-zero-missing", format!("c_inc{{own={}}} stopped changing but no zero was sent after its last delta: {:?}", series, emissions));
        }
    }
    }
    // ---- absolute-only counter (single writer, non-decreasing)
    let abss: Vec<&Ev> = h.iter().filter(|e| matches!(e.op, Op::CAbs(_))).collect();
    if !abss.is_empty() {
        let mut sum: u128 = 0;
        let mut ems = vec![];
        for fi in 0..flushes.len() {
            for m in get(fi, "c_abs") {
                let d: u64 = m.values.first().and_then(|v| v.parse().ok()).unwrap_or(u64::MAX);
                sum += d as u128;
                ems.push(d);
            }
        }
        let first = abss.first().unwrap().value;
        let last = abss.last().unwrap().value;
        let want = last.wrapping_sub(first) as u128;
        if exact_tail && sum != want {
            let first_abs = abss.first().unwrap();
            let raced = flushes.iter().any(|f| f.inv < first_abs.ret && f.ret > first_abs.inv);
            return violation(
                "absolute-counter-conservation",
                format!("c_abs driven by absolute values {}..{}: deltas must add up to {} but add up to {} ({:?}){}", first, last, want, sum, ems, if raced { " sig:first-absolute-races-flush" } else { "" }),
            );
        }
    }
    // ---- gauge: every flush after registration carries a value the gauge held during the flush
    let sets: Vec<&Ev> = h.iter().filter(|e| e.op == Op::GSet).collect();
    for (fi, f) in flushes.iter().enumerate() {
        let ms = get(fi, "g_one");
        let registered = sets.iter().any(|s| s.ret < f.inv);
        if registered && ms.len() != 1 {
            return violation("gauge-not-sent", format!("flush {} (steps {}..{}) carries {} messages for g_one although it was registered before", fi, f.inv, f.ret, ms.len()));
        }
        for m in ms {
            let got: f64 = m.values.first().and_then(|v| v.parse().ok()).unwrap_or(f64::NAN);
            let valid = sets.iter().any(|x| x.value as f64 == got && x.inv < f.ret && !sets.iter().any(|w| x.ret < w.inv && w.ret < f.inv)) || (got == 0.0 && !sets.iter().any(|w| w.ret < f.inv));
            if !valid {
                return violation("gauge-value", format!("flush {} sends g_one = {} which is not a value the gauge held during that flush", fi, got));
            }
        }
    }
    // ---- gauge moved by deltas: a flush shows the net of the adjustments applied so far, none lost
    let adds: Vec<(&Ev, i64)> = h.iter().filter_map(|e| if let Op::GAdd(d) = e.op { Some((e, d)) } else { None }).collect();
    for (fi, f) in flushes.iter().enumerate() {
        let ms = get(fi, "g_acc");
        let registered = adds.iter().any(|a| a.0.ret < f.inv);
        if registered && ms.len() != 1 {
            return violation("gauge-not-sent", format!("flush {} (steps {}..{}) carries {} messages for g_acc although it was registered before", fi, f.inv, f.ret, ms.len()));
        }
        for m in ms {
            let got: f64 = m.values.first().and_then(|v| v.parse().ok()).unwrap_or(f64::NAN);
            let done: i64 = adds.iter().filter(|a| a.0.ret < f.inv).map(|a| a.1).sum();
            let lo = done + adds.iter().filter(|a| a.0.ret >= f.inv && a.0.inv < f.ret && a.1 < 0).map(|a| a.1).sum::<i64>();
            let hi = done + adds.iter().filter(|a| a.0.ret >= f.inv && a.0.inv < f.ret && a.1 > 0).map(|a| a.1).sum::<i64>();
            if !(got >= lo as f64 && got <= hi as f64) {
                return violation("gauge-delta-lost", format!("flush {} (steps {}..{}) sends g_acc = {}; the adjustments completed before it net {} and with those in flight it can be {}..{} (adjustments (invoked, returned, delta): {:?})", fi, f.inv, f.ret, got, done, lo, hi, adds.iter().map(|a| (a.0.inv, a.0.ret, a.1)).collect::<Vec<_>>()));
            }
        }
    }
    // ---- histogram: every value in exactly one flush
    check_hist_history(cfg, h, exact_tail, None, &parsed)
}

/// Small payload limits (agent scenarios): only the histogram accounting applies.
pub fn check_hist_only(cfg: &Cfg, h: &[Ev], limit: usize) -> Option<Violation> {
    let mut parsed: Vec<Vec<dd::Msg>> = vec![];
    for f in h.iter().filter(|e| e.op == Op::Flush) {
        let mut ms = vec![];
        for p in &f.payloads {
            match dd::parse(p) {
                Ok(m) => ms.push(m),
                Err(e) => return violation("payload-malformed", format!("flush at {}: {} in {:?}", f.inv, e, String::from_utf8_lossy(p))),
            }
        }
        parsed.push(ms);
    }
    check_hist_history(cfg, h, true, Some(limit), &parsed)
}

/// Histogram part of the flush-history check. With `limit` = Some(configured payload limit) it is
/// the only part that applies (counter and gauge messages may themselves be rejected for size):
/// every recorded value is sent at most once, nothing foreign is sent, and a short (HRec) value
/// whose whole single-value message fits the limit with two bytes to spare is sent by some flush —
/// also after a flush in which nothing of this histogram fitted.
fn check_hist_history(cfg: &Cfg, h: &[Ev], exact_tail: bool, limit: Option<usize>, parsed: &[Vec<dd::Msg>]) -> Option<Violation> {
    let pre = if cfg.prefix { "pre." } else { "" };
    let get = |fi: usize, base: &str| -> Vec<&dd::Msg> { parsed[fi].iter().filter(|m| m.name.strip_prefix(pre) == Some(base)).collect() };
    let flushes: Vec<&Ev> = h.iter().filter(|e| e.op == Op::Flush).collect();
    let recs: Vec<&Ev> = h.iter().filter(|e| e.op == Op::HRec || e.op == Op::HLong).collect();
    let mut seen: BTreeMap<u64, usize> = BTreeMap::new();
    for (fi, f) in flushes.iter().enumerate() {
        for m in get(fi, "h_one") {
            for v in &m.values {
                let x: f64 = v.parse().unwrap_or(f64::NAN);
                let tag = x as u64;
                match recs.iter().find(|r| r.value == tag) {
                    None => return violation("histogram-foreign-value", format!("flush {} sends h_one value {} nobody recorded", fi, v)),
                    Some(r) => {
                        if r.inv > f.ret {
                            return violation("histogram-future-value", format!("value recorded at {} sent by a flush that ended at {}", r.inv, f.ret));
                        }
                    }
                }
                if seen.insert(tag, fi).is_some() {
                    return violation("histogram-duplicate", format!("h_one value {} sent by two flushes", v));
                }
            }
        }
    }
    if exact_tail {
        for r in &recs {
            if let Some(limit) = limit {
                let x = if r.op == Op::HLong { r.value as f64 + LONG_FRACTION } else { r.value as f64 };
                let msg_len = if cfg.prefix { 4 } else { 0 } + "h_one:".len() + format!("{:?}", x).len() + "|h".len() + if cfg.global_label { "|#glob:x".len() } else { 0 } + 1;
                if msg_len + 2 > limit {
                    continue;
                }
            }
            if !seen.contains_key(&r.value) {
                return violation("histogram-lost", format!("h_one value recorded at steps {}..{} was never sent by any flush{}", r.inv, r.ret, limit.map_or(String::new(), |l| if l > 1 << 32 { String::new() } else { format!(" although its message fits the payload limit of {} bytes", l) })));
            }
        }
    }
    None
}

// ----------------------------------------------------------------------------------------------
// (ii) the whole exporter against the simulated agent socket

#[derive(Clone, Debug, Serialize, Deserialize)]
pub struct APlan {
    pub cfg: Cfg,
    /// 0 udp, 1 unixgram, 2 unix stream (length-prefixed)
    pub transport: u8,
    pub interval_ms: u64,
    pub max_payload: Option<usize>,
    /// per flush cycle: operations the application performs in the middle of the interval
    pub cycles: Vec<Vec<Op>>,
    pub abs_start: u64,
}

pub struct C10Agent;

impl Scenario for C10Agent {
    type Plan = APlan;
    fn property(&self) -> &'static str {
        "C10"
    }
    fn name(&self) -> &'static str {
        "agent"
    }
    fn horizon(&self) -> u64 {
        1500
    }
    fn fault_rates(&self) -> Vec<u64> {
        vec![0, 0, 0, 10, 50, 200]
    }
    fn plan(&self, r: &mut Rng, tier: Tier) -> APlan {
        let cfg = Cfg { aggressive: r.chance(500), prefix: r.chance(400), global_label: r.chance(400), as_distributions: r.chance(500) };
        let ncycles = r.range(1, if tier == Tier::Thorough { 6 } else { 4 });
        let cycles = (0..ncycles)
            .map(|_| {
                let n = r.below(6);
                (0..n)
                    .map(|_| match r.below(10) {
                        0..=2 => Op::CInc(r.range(1, 9)),
                        3 => Op::CInc2(r.range(1, 9)),
                        4 => Op::CAbs(r.range(0, 7)),
                        5..=6 => Op::GSet,
                        7 => Op::HLong,
                        _ => Op::HRec,
                    })
                    .collect()
            })
            .collect();
        APlan { cfg, transport: r.below(3) as u8, interval_ms: *r.pick(&[10u64, 1000, 3000, 10_000]), max_payload: if r.chance(400) { Some(*r.pick(&[64usize, 100, 200])) } else { None }, cycles, abs_start: *r.pick(&[0u64, 5, 1000]) }
    }
    fn execute(&self, plan: &APlan, sched: &SchedSpec) -> RunReport {
        let net = crate::simnet::install(sched.faults.clone());
        let hist: Arc<Mutex<Vec<Ev>>> = Arc::new(Mutex::new(vec![]));
        let build_err: Arc<Mutex<Option<String>>> = Arc::new(Mutex::new(None));
        let p = plan.clone();
        let (h2, be2) = (hist.clone(), build_err.clone());
        let sim = simulate(sched, 400_000, move || {
            let addr = match p.transport {
                0 => "udp://127.0.0.1:8125",
                1 => "unixgram:///sim/dd.sock",
                _ => "unix:///sim/dd.sock",
            };
            let mut b = metrics_exporter_dogstatsd::DogStatsDBuilder::default()
                .with_remote_address(addr)
                .expect("address parses")
                .with_flush_interval(std::time::Duration::from_millis(p.interval_ms))
                .with_telemetry(false)
                .with_aggregation_mode(if p.cfg.aggressive { metrics_exporter_dogstatsd::AggregationMode::Aggressive } else { metrics_exporter_dogstatsd::AggregationMode::Conservative })
                .send_histograms_as_distributions(p.cfg.as_distributions);
            if p.cfg.prefix {
                b = b.set_global_prefix("pre");
            }
            if p.cfg.global_label {
                b = b.with_global_labels(vec![Label::new("glob", "x")]);
            }
            if let Some(m) = p.max_payload {
                b = match b.with_maximum_payload_length(m) {
                    Ok(b) => b,
                    Err(e) => {
                        *be2.lock().unwrap() = Some(format!("{:?}", e));
                        return;
                    }
                };
            }
            let rec = match b.build() {
                Ok(r) => r,
                Err(e) => {
                    *be2.lock().unwrap() = Some(format!("{:?}", e));
                    return;
                }
            };
            let interval = p.interval_ms * 1_000_000;
            let mut abs = p.abs_start;
            let mut seq = 0u64;
            // application activity in the middle of each flush interval
            dsim::sleep(interval / 2);
            for ops in &p.cycles {
                for op in ops {
                    dsim::point("c10a.op");
                    seq += 1;
                    let tag = (1u64 << 20) | seq;
                    let key = key_for(op).unwrap();
                    let inv = dsim::step();
                    let value = match op {
                        Op::CInc(v) | Op::CInc2(v) => {
                            rec.register_counter(&key, &MD).increment(*v);
                            *v
                        }
                        Op::CAbs(d) => {
                            abs = abs.wrapping_add(*d);
                            rec.register_counter(&key, &MD).absolute(abs);
                            abs
                        }
                        Op::GSet => {
                            rec.register_gauge(&key, &MD).set(tag as f64);
                            tag
                        }
                        Op::GAdd(d) => {
                            if *d >= 0 {
                                rec.register_gauge(&key, &MD).increment(*d as f64);
                            } else {
                                rec.register_gauge(&key, &MD).decrement(-*d as f64);
                            }
                            0
                        }
                        Op::HRec => {
                            rec.register_histogram(&key, &MD).record(tag as f64);
                            tag
                        }
                        Op::HLong => {
                            rec.register_histogram(&key, &MD).record(tag as f64 + LONG_FRACTION);
                            tag
                        }
                        Op::Flush => 0,
                    };
                    let ret = dsim::step();
                    h2.lock().unwrap().push(Ev { tid: 0, inv, ret, op: op.clone(), value, payloads: vec![] });
                }
                dsim::sleep(interval);
            }
            // three more full cycles at rest (after slow sends: enough for the forwarder to catch up)
            dsim::sleep(3 * interval);
            let mut seen = 0;
            loop {
                let n = crate::simnet::slow_sends();
                if n == seen {
                    break;
                }
                seen = n;
                dsim::sleep(1_000_000_000 + 3 * interval);
            }
        });
        crate::simnet::uninstall();
        let mut rep = RunReport::ok(sim);
        let simr = rep.sim.as_ref().unwrap();
        let faults = net.faults.lock().unwrap().fired.clone();
        let st = net.st.lock().unwrap();
        let mut v = None;
        let mut h = hist.lock().unwrap().clone();
        let interval = plan.interval_ms * 1_000_000;
        if let Some(e) = build_err.lock().unwrap().clone() {
            // a rejected configuration is not a run
            rep.count("build_rejected", 1);
            rep.observations = e;
        } else if !simr.panics.is_empty() {
            v = violation("panic", format!("exporter thread panicked: {:?}", simr.panics));
        } else if simr.end == dsim::End::Completed {
            // ---- agent side: framing
            let mut messages: Vec<(u64, u64, Vec<u8>)> = vec![]; // (time, step, payload)
            if plan.transport == 2 {
                for (id, s) in st.streams.iter() {
                    let (frames, rest) = dd::deframe(&s.to_peer);
                    if !rest.is_empty() && !s.ended_by_fault && !s.slow_in_progress {
                        v = violation("stream-framing", format!("connection {} did not end in an injected error but its byte stream ends with {} bytes that are not a whole length-prefixed frame", id, rest.len()));
                    }
                    // time/step of a frame = those of the write that completed it
                    let mut pos = 0usize;
                    let mut ends: Vec<(usize, u64, u64)> = vec![];
                    for d in st.deliveries.iter().filter(|d| d.conn == *id) {
                        pos += d.data.len();
                        ends.push((pos, d.time, d.step));
                    }
                    let mut off = 0usize;
                    for f in frames {
                        off += 4 + f.len();
                        let (t, sp) = ends.iter().find(|e| e.0 >= off).map(|e| (e.1, e.2)).unwrap_or((0, 0));
                        messages.push((t, sp, f));
                    }
                }
                messages.sort();
            } else {
                for d in &st.deliveries {
                    messages.push((d.time, d.step, d.data.clone()));
                }
            }
            for (_, _, m) in &messages {
                if v.is_none() {
                    if let Err(e) = dd::parse(m) {
                        v = violation("payload-malformed", format!("agent received {:?}: {}", String::from_utf8_lossy(&m[..m.len().min(80)]), e));
                    }
                    let limit = plan.max_payload.unwrap_or(if plan.transport == 0 { 1432 } else { 8192 });
                    if m.len() > limit {
                        v = violation("payload-too-long", format!("agent received a {}-byte message, limit {}", m.len(), limit));
                    }
                }
            }
            // ---- conservation: only in fault-free runs (a failed send loses that payload, as documented)
            // (and only when no single counter/gauge message can be rejected for size: the longest one is ~60 bytes)
            // ---- under loss (failed or dropped sends, broken connections): what does arrive still obeys
            // "a counter that stopped changing is sent as zero once and not again until it changes"
            let lossy = ["dgram_drop", "send_refused", "send_nobufs", "send_timeout", "connect_refused", "write_epipe", "write_reset", "write_wouldblock", "write_eintr", "short_write"];
            if v.is_none() && !faults.is_empty() && faults.iter().all(|f| lossy.contains(&f.kind.as_str())) {
                v = check_idle_zero_under_loss(plan, &messages);
            }
            if v.is_none() && !faults.is_empty() && faults.iter().all(|f| f.kind == "send_slow") {
                // slow sends lose nothing but shift the flush times, so flush windows cannot be
                // told from the clock: only the time-free histogram accounting is asserted
                let all: Vec<Vec<u8>> = messages.iter().map(|m| m.2.clone()).collect();
                h.push(Ev { tid: 99, inv: 0, ret: u64::MAX, op: Op::Flush, value: 0, payloads: all });
                v = check_hist_only(&plan.cfg, &h, plan.max_payload.unwrap_or(usize::MAX - 2));
            }
            // ---- datagram transports under faults that only decide the fate of one datagram (dropped,
            // duplicated, or its send call failed — none of them takes time, and the datagram socket is
            // re-made without fail before the next send): every payload a flush produced is still handed
            // to a send call exactly once, so conservation is asserted over the *attempted* datagrams —
            // a failed send loses that payload, never the ones behind it
            let per_datagram = ["dgram_drop", "dgram_dup", "send_refused", "send_nobufs", "send_timeout"];
            // ---- the stream transport likewise, under faults of single write calls (short, interrupted,
            // timed out, broken pipe, reset) and no failing reconnect: every frame is handed to a write
            // call that starts with its length prefix exactly once
            let per_write = ["short_write", "write_eintr", "write_epipe", "write_reset", "write_wouldblock"];
            let over_attempts = !faults.is_empty() && if plan.transport != 2 { faults.iter().all(|f| per_datagram.contains(&f.kind.as_str())) } else { faults.iter().all(|f| per_write.contains(&f.kind.as_str())) };
            if over_attempts {
                messages = st.attempts.iter().map(|d| (d.time, d.step, d.data.clone())).collect();
                rep.count("conservation_over_attempts_runs", 1);
            }
            if v.is_none() && (faults.is_empty() || over_attempts) {
                let full = plan.max_payload.map_or(true, |m| m >= 100);
                // flush k happens at virtual time k * interval; its sends fall into [k*I, (k+1)*I)
                let last_cycle = messages.iter().map(|m| m.0 / interval).max().unwrap_or(0).max(plan.cycles.len() as u64 + 3);
                for k in 1..=last_cycle {
                    let mine: Vec<Vec<u8>> = messages.iter().filter(|m| m.0 / interval == k).map(|m| m.2.clone()).collect();
                    // window in steps: from the forwarder's wake-up at k*I to its last send of the cycle
                    let inv = st.sleeps.iter().filter(|s| !s.enter && s.time == k * interval).map(|s| s.step).min().unwrap_or(0);
                    let ret = messages.iter().filter(|m| m.0 / interval == k).map(|m| m.1).max().unwrap_or(inv).max(inv);
                    h.push(Ev { tid: 99, inv, ret, op: Op::Flush, value: 0, payloads: mine });
                }
                h.sort_by_key(|e| e.inv);
                v = if full { check_flush_history(&plan.cfg, &h, true) } else { check_hist_only(&plan.cfg, &h, plan.max_payload.unwrap_or(0)) };
            }
        }
        // observations: chunk sizes as delivered, plus whole messages with the wall-clock
        // timestamp value masked (a chunk boundary may fall inside the timestamp digits)
        let mut obs = String::new();
        for d in &st.deliveries {
            if plan.transport == 2 {
                obs.push_str(&format!("{}@{}:{}b;", d.conn, d.time, d.data.len()));
            } else {
                obs.push_str(&format!("{}@{}:{};", d.conn, d.time, strip_ts(&d.data)));
            }
        }
        if plan.transport == 2 {
            for (id, s) in st.streams.iter() {
                let (frames, rest) = dd::deframe(&s.to_peer);
                obs.push_str(&format!("conn{}:{:?}+{}b;", id, frames.iter().map(|f| strip_ts(f)).collect::<Vec<_>>(), rest.len()));
            }
        }
        rep.history_hash = crate::util::hash_str(&obs);
        rep.observations = obs;
        rep.count("deliveries", st.deliveries.len() as u64);
        rep.count("connections", (st.streams.len() + st.dgram_socks.len()) as u64);
        rep.faults = faults;
        rep.violation = v;
        rep
    }
    fn shrink(&self, p: &APlan) -> Vec<APlan> {
        let mut out = vec![];
        for i in 0..p.cycles.len() {
            if p.cycles.len() > 1 {
                let mut q = p.clone();
                q.cycles.remove(i);
                out.push(q);
            }
            for j in 0..p.cycles[i].len() {
                let mut q = p.clone();
                q.cycles[i].remove(j);
                out.push(q);
            }
        }
        if p.max_payload.is_some() {
            let mut q = p.clone();
            q.max_payload = None;
            out.push(q);
        }
        out
    }
    fn real_components(&self) -> Vec<&'static str> {
        vec!["DogStatsDBuilder::build", "forwarder::sync::Forwarder::run (flush loop, splay sleeps, ClientState reconnect machine)", "State::flush, PayloadWriter (length-prefixed on unix://), storage"]
    }
    fn stub_components(&self) -> Vec<&'static str> {
        vec!["thread scheduler (dsim)", "std::thread::sleep / Instant (virtual time)", "UdpSocket / UnixDatagram / UnixStream (simulated agent socket with seeded drop, duplicate, ECONNREFUSED, ENOBUFS, timeout, short write, EINTR, EPIPE, reset)", "SystemTime for the timestamp value (real; only its presence is compared)"]
    }
    fn assumptions(&self) -> Vec<&'static str> {
        vec!["application updates happen in the middle of flush intervals in this scenario (update/flush races are the `flush` scenario's job); conservation is asserted in fault-free runs and, over the attempted datagrams or frames, in runs whose only faults decide the fate of single datagrams or single write calls; framing and well-formedness in all runs"]
    }
}

/// Flush k of the forwarder runs at virtual time k * interval and its sends fall into that interval
/// (no slow sends in these runs); the application's operations of cycle c happen at (c + 1/2) *
/// interval. Two zero deltas received for one increment-only counter series must have an increment
/// of that series between their flushes, however many payloads were lost in between.
fn check_idle_zero_under_loss(plan: &APlan, messages: &[(u64, u64, Vec<u8>)]) -> Option<Violation> {
    let interval = plan.interval_ms * 1_000_000;
    let pre = if plan.cfg.prefix { "pre." } else { "" };
    for series in ["1", "2"] {
        let mut inc_times: Vec<u64> = vec![];
        for (c, ops) in plan.cycles.iter().enumerate() {
            for op in ops {
                if matches!((op, series), (Op::CInc(_), "1") | (Op::CInc2(_), "2")) {
                    inc_times.push(interval / 2 + c as u64 * interval);
                }
            }
        }
        let mut zeros: Vec<u64> = vec![]; // flush index of every received zero
        for (t, _, m) in messages {
            if let Ok(msg) = dd::parse(m) {
                if msg.name.strip_prefix(pre) == Some("c_inc") && msg.tags.iter().any(|(k, v)| k == "own" && v.as_deref() == Some(series)) && msg.values.first().map(|v| v.as_str()) == Some("0") {
                    zeros.push(t / interval);
                }
            }
        }
        for w in zeros.windows(2) {
            let (k1, k2) = (w[0], w[1]);
            if !inc_times.iter().any(|t| *t > k1 * interval && *t < k2 * interval) {
                return violation(
                    "idle-zero-resent",
                    format!("c_inc{{own={}}}: the agent received a zero delta from flush {} and another from flush {} although the counter was not incremented in between (increments at {:?} ns, interval {} ns); lost payloads can remove messages, not repeat the idle zero", series, k1, k2, inc_times, interval),
                );
            }
        }
    }
    None
}

/// The same end-to-end pipeline filed under C09: biased to the length-prefixed unix stream
/// transport and to small payload limits (rejections, many payloads per flush cycle).
pub struct C09Agent;

impl Scenario for C09Agent {
    type Plan = APlan;
    fn property(&self) -> &'static str {
        "C09"
    }
    fn name(&self) -> &'static str {
        "agent"
    }
    fn horizon(&self) -> u64 {
        1500
    }
    fn fault_rates(&self) -> Vec<u64> {
        vec![0, 0, 10, 50, 200]
    }
    fn plan(&self, r: &mut Rng, tier: Tier) -> APlan {
        let mut p = Scenario::plan(&C10Agent, r, tier);
        if r.chance(600) {
            p.transport = 2;
        }
        if r.chance(600) {
            p.max_payload = Some(*r.pick(&[24usize, 28, 32, 36, 40, 48, 64, 100]));
        }
        p
    }
    fn execute(&self, plan: &APlan, sched: &SchedSpec) -> RunReport {
        Scenario::execute(&C10Agent, plan, sched)
    }
    fn shrink(&self, p: &APlan) -> Vec<APlan> {
        Scenario::shrink(&C10Agent, p)
    }
    fn real_components(&self) -> Vec<&'static str> {
        Scenario::real_components(&C10Agent)
    }
    fn stub_components(&self) -> Vec<&'static str> {
        Scenario::stub_components(&C10Agent)
    }
    fn assumptions(&self) -> Vec<&'static str> {
        Scenario::assumptions(&C10Agent)
    }
}
