pub mod c02;

use crate::Entry;

pub fn all() -> Vec<Entry> {
    vec![
        Entry { scn: &c02::C02Cell, quick_runs: 20_000, thorough_runs: 2_000_000 },
    ]
}
