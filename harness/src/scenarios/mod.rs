pub mod c01;
pub mod c02;
pub mod c03;
pub mod c04;
pub mod c05;
pub mod c06;
pub mod c07;
pub mod c09;
pub mod c10;
pub mod c11;
pub mod c12;
pub mod c15;
pub mod c16;
pub mod c17;
pub mod c18;
pub mod c19;
pub mod c20;

use crate::Entry;

pub fn all() -> Vec<Entry> {
    vec![
        Entry { scn: &c02::C02Cell, quick_runs: 100_000, thorough_runs: 5_000_000 },
        Entry { scn: &c02::C02Global, quick_runs: 60_000, thorough_runs: 3_000_000 },
        Entry { scn: &c05::C05Bucket, quick_runs: 60_000, thorough_runs: 3_000_000 },
        Entry { scn: &c04::C04Handles, quick_runs: 60_000, thorough_runs: 3_000_000 },
        Entry { scn: &c20::C20Recoverable, quick_runs: 60_000, thorough_runs: 3_000_000 },
        Entry { scn: &c16::C16Reservoir, quick_runs: 60_000, thorough_runs: 3_000_000 },
        Entry { scn: &c16::C16Uniformity, quick_runs: 48, thorough_runs: 600 },
        Entry { scn: &c06::C06Registry, quick_runs: 20_000, thorough_runs: 3_000_000 },
        Entry { scn: &c03::C03Key, quick_runs: 60_000, thorough_runs: 3_000_000 },
        Entry { scn: &c19::C19Debugging, quick_runs: 20_000, thorough_runs: 2_000_000 },
        Entry { scn: &c07::C07Prometheus, quick_runs: 12_000, thorough_runs: 1_000_000 },
        Entry { scn: &c12::C12Recency, quick_runs: 60_000, thorough_runs: 3_000_000 },
        Entry { scn: &c12::C12PromIdle, quick_runs: 30_000, thorough_runs: 2_000_000 },
        Entry { scn: &c12::C12RecencyMt, quick_runs: 200_000, thorough_runs: 4_000_000 },
        Entry { scn: &c15::C15Windows, quick_runs: 40_000, thorough_runs: 3_000_000 },
        Entry { scn: &c09::C09Writer, quick_runs: 60_000, thorough_runs: 3_000_000 },
        Entry { scn: &c10::C10Flush, quick_runs: 30_000, thorough_runs: 2_000_000 },
        Entry { scn: &c10::C10Agent, quick_runs: 20_000, thorough_runs: 1_000_000 },
        Entry { scn: &c10::C09Agent, quick_runs: 20_000, thorough_runs: 1_000_000 },
        Entry { scn: &c11::C11Tcp, quick_runs: 20_000, thorough_runs: 1_000_000 },
        Entry { scn: &c01::C01Scopes, quick_runs: 60_000, thorough_runs: 3_000_000 },
        Entry { scn: &c17::C17Tracing, quick_runs: 40_000, thorough_runs: 2_000_000 },
        Entry { scn: &c18::C18Http, quick_runs: 6_000, thorough_runs: 400_000 },
    ]
}
