pub mod c02;
pub mod c05;

use crate::Entry;

pub fn all() -> Vec<Entry> {
    vec![
        Entry { scn: &c02::C02Cell, quick_runs: 20_000, thorough_runs: 2_000_000 },
        Entry { scn: &c05::C05Bucket, quick_runs: 6_000, thorough_runs: 1_000_000 },
    ]
}
