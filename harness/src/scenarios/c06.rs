//! C06 — the registry keeps exactly one storage per metric kind and key.
//! Real `Registry<Key, S>` with a counting `Storage` double; shard locks go through the lock seam,
//! so a thread can be pre-empted between dropping the read lock and taking the write lock, and
//! while holding either. Oracle: WGL linearizability against a sequential map model.

use crate::framework::*;
use crate::oracles::wgl::{self, Call, Model};
use dsim::Rng;
use metrics::{CounterFn, GaugeFn, HistogramFn, Key, Label};
use metrics_util::registry::{Registry, Storage};
use serde::{Deserialize, Serialize};
use std::collections::{BTreeMap, BTreeSet};
use std::sync::atomic::{AtomicU64, Ordering};
use std::sync::{Arc, Mutex};

#[derive(Debug)]
pub struct Cell {
    pub id: u64,
    /// set by a Bump operation; what the value-dependent retain predicate looks at
    pub bumped: std::sync::atomic::AtomicBool,
}
impl CounterFn for Cell {
    fn increment(&self, _: u64) {}
    fn absolute(&self, _: u64) {}
}
impl GaugeFn for Cell {
    fn increment(&self, _: f64) {}
    fn decrement(&self, _: f64) {}
    fn set(&self, _: f64) {}
}
impl HistogramFn for Cell {
    fn record(&self, _: f64) {}
}

pub struct Counting {
    next: AtomicU64,
    log: Mutex<Vec<(u8, String, u64)>>,
}
impl Counting {
    fn mk(&self, kind: u8, key: &Key) -> Arc<Cell> {
        let id = self.next.fetch_add(1, Ordering::SeqCst) + 1;
        self.log.lock().unwrap().push((kind, format!("{}", key), id));
        Arc::new(Cell { id, bumped: std::sync::atomic::AtomicBool::new(false) })
    }
}
pub struct CountingRef(pub Arc<Counting>);
impl std::ops::Deref for CountingRef {
    type Target = Counting;
    fn deref(&self) -> &Counting {
        &self.0
    }
}
impl Storage<Key> for CountingRef {
    type Counter = Arc<Cell>;
    type Gauge = Arc<Cell>;
    type Histogram = Arc<Cell>;
    fn counter(&self, key: &Key) -> Arc<Cell> {
        self.mk(0, key)
    }
    fn gauge(&self, key: &Key) -> Arc<Cell> {
        self.mk(1, key)
    }
    fn histogram(&self, key: &Key) -> Arc<Cell> {
        self.mk(2, key)
    }
}

/// Logical keys. Variants are different constructions of an equal key.
pub const NKEYS: usize = 8;

static SL_AB: [Label; 2] = [Label::from_static_parts("a", "1"), Label::from_static_parts("b", "2")];
static SL_BA: [Label; 2] = [Label::from_static_parts("b", "2"), Label::from_static_parts("a", "1")];
static SL_A: [Label; 1] = [Label::from_static_parts("a", "1")];
static SL_HH: [Label; 2] = [Label::from_static_parts("h", "a"), Label::from_static_parts("h", "b")];

/// Names whose keys share the low hash byte (hence the registry shard) of "k0".
fn same_shard_names() -> &'static Vec<String> {
    use std::sync::OnceLock;
    static N: OnceLock<Vec<String>> = OnceLock::new();
    N.get_or_init(|| {
        let target = Key::from_name("k0").get_hash() & 0xff;
        let mut out = vec![];
        for i in 0..1_000_000 {
            let n = format!("s{}", i);
            if Key::from_name(n.clone()).get_hash() & 0xff == target {
                out.push(n);
                if out.len() == 4 {
                    break;
                }
            }
        }
        while out.len() < 4 {
            out.push(format!("fallback{}", out.len()));
        }
        out
    })
}
fn same_shard_name() -> &'static str {
    &same_shard_names()[0]
}

fn build_key(logical: usize, variant: u8) -> Key {
    match logical {
        0 => match variant % 3 {
            0 => Key::from_static_name("k0"),
            1 => Key::from_name(String::from("k0")),
            _ => Key::from_name("k0").clone(),
        },
        1 => match variant % 4 {
            0 => Key::from_static_parts("k1", &SL_AB),
            1 => Key::from_static_labels("k1", &SL_BA),
            2 => Key::from_parts(String::from("k1"), vec![Label::new("b", "2"), Label::new(String::from("a"), String::from("1"))]),
            _ => Key::from_name("k1").with_extra_labels(vec![Label::new("a", "1"), Label::new("b", "2")]),
        },
        2 => match variant % 2 {
            0 => Key::from_name(same_shard_name()),
            _ => Key::from_name(same_shard_name().to_string()),
        },
        3 => match variant % 2 {
            0 => Key::from_static_parts("k0", &SL_A),
            _ => Key::from_parts("k0", vec![Label::new("a", "1")]),
        },
        // three more keys in the shard of k0: with k0 and key 2 they make a per-shard table grow
        5..=7 => match variant % 2 {
            0 => Key::from_name(same_shard_names()[logical - 4].as_str()),
            _ => Key::from_name(same_shard_names()[logical - 4].clone()),
        },
        // two labels sharing one name: equal whatever the order they were supplied in
        _ => match variant % 4 {
            0 => Key::from_static_parts("k1", &SL_HH),
            1 => Key::from_parts(String::from("k1"), vec![Label::new("h", "b"), Label::new("h", "a")]),
            2 => Key::from_name("k1").with_extra_labels(vec![Label::new("h", "b"), Label::new("h", "a")]),
            _ => Key::from_parts("k1", vec![Label::new(String::from("h"), String::from("a")), Label::new("h", "b")]),
        },
    }
}

/// Variant 4: one lazily hashed key per logical key, shared by reference between the threads of a
/// run (what the macros do with their `static` keys), so that the first hashing can race.
pub const SHARED_VARIANT: u8 = 4;
/// Variant 5 (Create only): the closure handed to get_or_create panics.
pub const PANIC_VARIANT: u8 = 5;
/// Variant 6: a clone of the run's shared lazily hashed key, taken by the operating thread right
/// before the operation (a clone can race with another thread's first hashing of the original).
pub const CLONED_SHARED_VARIANT: u8 = 6;
struct OpPanic;
static SHARED: Mutex<Vec<&'static Key>> = Mutex::new(vec![]);
fn fresh_shared_keys() {
    let v: Vec<&'static Key> = (0..NKEYS)
        .map(|i| {
            let k = match i {
                0 => Key::from_static_name("k0"),
                1 => Key::from_static_parts("k1", &SL_AB),
                2 => Key::from_static_name(Box::leak(same_shard_name().to_string().into_boxed_str())),
                3 => Key::from_static_parts("k0", &SL_A),
                4 => Key::from_static_parts("k1", &SL_HH),
                _ => Key::from_static_name(Box::leak(same_shard_names()[i - 4].clone().into_boxed_str())),
            };
            &*Box::leak(Box::new(k))
        })
        .collect();
    *SHARED.lock().unwrap() = v;
}
fn with_key<T>(logical: usize, variant: u8, f: impl FnOnce(&Key) -> T) -> T {
    if variant == SHARED_VARIANT {
        let k: &'static Key = SHARED.lock().unwrap()[logical];
        f(k)
    } else if variant == CLONED_SHARED_VARIANT {
        let k: &'static Key = SHARED.lock().unwrap()[logical];
        let c = k.clone();
        f(&c)
    } else {
        f(&build_key(logical, variant))
    }
}

fn logical_of(key: &Key) -> Option<usize> {
    (0..NKEYS).find(|&i| build_key(i, 0) == *key)
}

#[derive(Clone, Debug, Serialize, Deserialize, PartialEq)]
pub enum Op {
    Create { kind: u8, key: usize, variant: u8 },
    Get { kind: u8, key: usize, variant: u8 },
    Delete { kind: u8, key: usize, variant: u8 },
    Clear,
    Retain { kind: u8, keep: u8 },
    /// get_or_create whose closure marks the storage ("the metric was updated")
    Bump { kind: u8, key: usize, variant: u8 },
    /// retain with a predicate on the *storage*: keep what has been bumped
    RetainBumped { kind: u8 },
    /// retain whose predicate keeps everything but panics when it meets this key (caught)
    RetainPanic { kind: u8, key: usize },
    Handles { kind: u8 },
    Visit { kind: u8 },
}

#[derive(Clone, Debug, Serialize, Deserialize)]
pub struct Plan {
    pub nkeys: usize,
    pub prefill: Vec<(u8, usize)>,
    pub threads: Vec<Vec<Op>>,
}

#[derive(Clone, Debug)]
enum Res {
    Id(u64),
    OptId(Option<u64>),
    Bool(bool),
    Unit,
    Listing(Vec<(Option<usize>, u64)>),
}

#[derive(Clone, Debug)]
struct Ev {
    tid: u32,
    inv: u64,
    ret: u64,
    op: Op,
    res: Res,
}

#[derive(Clone, PartialEq, Eq, Hash, Debug)]
enum Sub {
    Create(u8, usize, u64),
    Get(u8, usize, Option<u64>),
    Delete(u8, usize, bool),
    DelIfPresent(u8, usize),
    Bump(u8, usize, u64),
    DelIfUnbumped(u8, usize),
}

#[derive(Clone, PartialEq, Eq, Hash, Debug, Default)]
struct MapModel {
    map: BTreeMap<(u8, usize), u64>,
    used: BTreeSet<u64>,
    bumped: BTreeSet<u64>,
}

impl Model for MapModel {
    type Op = Sub;
    fn step(&mut self, op: &Sub) -> bool {
        match op {
            Sub::Create(k, key, id) => match self.map.get(&(*k, *key)) {
                Some(cur) => cur == id,
                None => {
                    if self.used.contains(id) {
                        return false;
                    }
                    self.used.insert(*id);
                    self.map.insert((*k, *key), *id);
                    true
                }
            },
            Sub::Get(k, key, r) => self.map.get(&(*k, *key)).copied() == *r,
            Sub::Delete(k, key, b) => self.map.remove(&(*k, *key)).is_some() == *b,
            Sub::DelIfPresent(k, key) => {
                self.map.remove(&(*k, *key));
                true
            }
            Sub::Bump(k, key, id) => {
                let ok = match self.map.get(&(*k, *key)) {
                    Some(cur) => cur == id,
                    None => {
                        if self.used.contains(id) {
                            return false;
                        }
                        self.used.insert(*id);
                        self.map.insert((*k, *key), *id);
                        true
                    }
                };
                if ok {
                    self.bumped.insert(*id);
                }
                ok
            }
            Sub::DelIfUnbumped(k, key) => {
                if let Some(id) = self.map.get(&(*k, *key)).copied() {
                    if !self.bumped.contains(&id) {
                        self.map.remove(&(*k, *key));
                    }
                }
                true
            }
        }
    }
}

pub struct C06Registry;

fn do_op(reg: &Registry<Key, CountingRef>, op: &Op) -> Res {
    let id_of = |c: &Arc<Cell>| c.id;
    match op {
        // the caller's closure panics after it has seen the storage (caught here): the entry exists
        // all the same, and the shard lock it may have poisoned must not hide anything later
        Op::Create { kind, key, variant } if *variant == PANIC_VARIANT => with_key(*key, 0, |k| {
            let mut got = u64::MAX;
            let boom = |c: &Arc<Cell>| -> u64 {
                got = c.id;
                std::panic::resume_unwind(Box::new(OpPanic))
            };
            let r = std::panic::catch_unwind(std::panic::AssertUnwindSafe(|| match kind {
                0 => reg.get_or_create_counter(k, boom),
                1 => reg.get_or_create_gauge(k, boom),
                _ => reg.get_or_create_histogram(k, boom),
            }));
            if let Err(p) = r {
                if !p.is::<OpPanic>() {
                    std::panic::resume_unwind(p);
                }
            }
            Res::Id(got)
        }),
        Op::Create { kind, key, variant } => with_key(*key, *variant, |k| {
            Res::Id(match kind {
                0 => reg.get_or_create_counter(k, id_of),
                1 => reg.get_or_create_gauge(k, id_of),
                _ => reg.get_or_create_histogram(k, id_of),
            })
        }),
        Op::Get { kind, key, variant } => with_key(*key, *variant, |k| {
            Res::OptId(match kind {
                0 => reg.get_counter(k).map(|c| c.id),
                1 => reg.get_gauge(k).map(|c| c.id),
                _ => reg.get_histogram(k).map(|c| c.id),
            })
        }),
        Op::Delete { kind, key, variant } => with_key(*key, *variant, |k| {
            Res::Bool(match kind {
                0 => reg.delete_counter(k),
                1 => reg.delete_gauge(k),
                _ => reg.delete_histogram(k),
            })
        }),
        Op::Clear => {
            reg.clear();
            Res::Unit
        }
        Op::Bump { kind, key, variant } => with_key(*key, *variant, |k| {
            let bump = |c: &Arc<Cell>| {
                c.bumped.store(true, Ordering::SeqCst);
                c.id
            };
            Res::Id(match kind {
                0 => reg.get_or_create_counter(k, bump),
                1 => reg.get_or_create_gauge(k, bump),
                _ => reg.get_or_create_histogram(k, bump),
            })
        }),
        Op::RetainBumped { kind } => {
            let f = |_: &Key, c: &Arc<Cell>| c.bumped.load(Ordering::SeqCst);
            match kind {
                0 => reg.retain_counters(f),
                1 => reg.retain_gauges(f),
                _ => reg.retain_histograms(f),
            }
            Res::Unit
        }
        Op::RetainPanic { kind, key } => {
            let pk = *key;
            let f = |k: &Key, _: &Arc<Cell>| {
                if logical_of(k) == Some(pk) {
                    std::panic::resume_unwind(Box::new(OpPanic));
                }
                true
            };
            let r = std::panic::catch_unwind(std::panic::AssertUnwindSafe(|| match kind {
                0 => reg.retain_counters(f),
                1 => reg.retain_gauges(f),
                _ => reg.retain_histograms(f),
            }));
            if let Err(p) = r {
                if !p.is::<OpPanic>() {
                    std::panic::resume_unwind(p);
                }
            }
            Res::Unit
        }
        Op::Retain { kind, keep } => {
            let f = |k: &Key, _: &Arc<Cell>| logical_of(k).map(|l| keep & (1 << l) != 0).unwrap_or(true);
            match kind {
                0 => reg.retain_counters(f),
                1 => reg.retain_gauges(f),
                _ => reg.retain_histograms(f),
            }
            Res::Unit
        }
        Op::Handles { kind } => {
            let v: Vec<(Option<usize>, u64)> = match kind {
                0 => reg.get_counter_handles().iter().map(|(k, c)| (logical_of(k), c.id)).collect(),
                1 => reg.get_gauge_handles().iter().map(|(k, c)| (logical_of(k), c.id)).collect(),
                _ => reg.get_histogram_handles().iter().map(|(k, c)| (logical_of(k), c.id)).collect(),
            };
            let mut v = v;
            v.sort();
            Res::Listing(v)
        }
        Op::Visit { kind } => {
            let mut v: Vec<(Option<usize>, u64)> = vec![];
            match kind {
                0 => reg.visit_counters(|k, c| v.push((logical_of(k), c.id))),
                1 => reg.visit_gauges(|k, c| v.push((logical_of(k), c.id))),
                _ => reg.visit_histograms(|k, c| v.push((logical_of(k), c.id))),
            }
            v.sort();
            Res::Listing(v)
        }
    }
}

impl Scenario for C06Registry {
    type Plan = Plan;
    fn property(&self) -> &'static str {
        "C06"
    }
    fn name(&self) -> &'static str {
        "registry"
    }
    fn horizon(&self) -> u64 {
        200
    }
    fn plan(&self, r: &mut Rng, _tier: Tier) -> Plan {
        // "crowded" profile: three same-shard keys of one kind are there from the start, so a fourth
        // makes that shard's table grow while the earlier ones are in use
        let crowded = r.chance(120);
        let nkeys = if crowded { NKEYS } else { r.range(1, 5) as usize };
        let nkinds = r.range(1, 3) as u8;
        let nthreads = r.range(2, 4) as usize;
        let mut prefill = vec![];
        if crowded {
            let k = r.below(nkinds as u64) as u8;
            prefill.extend([(k, 0usize), (k, 2), (k, 5)]);
        } else {
            for _ in 0..r.below(3) {
                prefill.push((r.below(nkinds as u64) as u8, r.below(nkeys as u64) as usize));
            }
        }
        let mut threads = vec![];
        let mut budget = 11i32; // sub-operations the checker has to order
        for _ in 0..nthreads {
            let n = r.range(1, 4);
            let mut ops = vec![];
            for _ in 0..n {
                let kind = if crowded && r.chance(700) { prefill[0].0 } else { r.below(nkinds as u64) as u8 };
                let key = if crowded { *r.pick(&[0usize, 2, 5, 6, 7, 6, 7, 1]) } else { r.below(nkeys as u64) as usize };
                // 4 (twice as likely) = the run's shared lazily hashed key; 5 = panicking closure (Create)
                let variant = match r.below(8) {
                    v @ 0..=3 => v as u8,
                    4 | 5 => SHARED_VARIANT,
                    6 => PANIC_VARIANT,
                    _ => CLONED_SHARED_VARIANT,
                };
                let op = match r.below(23) {
                    20 => Op::Bump { kind, key, variant: if variant == PANIC_VARIANT { SHARED_VARIANT } else { variant } },
                    21 => Op::RetainBumped { kind },
                    22 => {
                        if r.chance(500) {
                            Op::RetainPanic { kind, key }
                        } else {
                            Op::Bump { kind, key, variant: 0 }
                        }
                    }
                    0..=8 => Op::Create { kind, key, variant },
                    9..=11 => Op::Get { kind, key, variant },
                    12..=14 => Op::Delete { kind, key, variant },
                    15 => Op::Clear,
                    16 => Op::Retain { kind, keep: r.below(1u64 << nkeys) as u8 },
                    17..=18 => Op::Handles { kind },
                    _ => Op::Visit { kind },
                };
                let cost = match op {
                    Op::Clear => (nkeys * nkinds as usize) as i32,
                    Op::Retain { .. } | Op::RetainBumped { .. } | Op::Handles { .. } | Op::Visit { .. } => nkeys as i32,
                    _ => 1,
                };
                if budget - cost < 0 {
                    continue;
                }
                budget -= cost;
                ops.push(op);
            }
            if ops.is_empty() {
                ops.push(Op::Create { kind: 0, key: 0, variant: 0 });
            }
            threads.push(ops);
        }
        Plan { nkeys, prefill, threads }
    }
    fn execute(&self, plan: &Plan, sched: &SchedSpec) -> RunReport {
        let _ = same_shard_name(); // computed outside the simulation
        fresh_shared_keys();
        let hist: Arc<Mutex<Vec<Ev>>> = Arc::new(Mutex::new(vec![]));
        let storage = Arc::new(Counting { next: AtomicU64::new(0), log: Mutex::new(vec![]) });
        let p = plan.clone();
        let (h2, st2) = (hist.clone(), storage.clone());
        let sim = simulate(sched, 60_000, move || {
            let reg: Arc<Registry<Key, CountingRef>> = Arc::new(Registry::new(CountingRef(st2)));
            dsim::passthrough(true);
            for (kind, key) in &p.prefill {
                let op = Op::Create { kind: *kind, key: *key, variant: 0 };
                let res = do_op(&reg, &op);
                h2.lock().unwrap().push(Ev { tid: 0, inv: 0, ret: 0, op, res });
            }
            dsim::passthrough(false);
            let mut hs = vec![];
            for (ti, ops) in p.threads.iter().enumerate() {
                let ops = ops.clone();
                let reg = reg.clone();
                let hist = h2.clone();
                hs.push(dsim::spawn(&format!("w{}", ti + 1), move || {
                    for op in ops {
                        dsim::point("c06.op");
                        let inv = dsim::step();
                        let res = do_op(&reg, &op);
                        let ret = dsim::step();
                        hist.lock().unwrap().push(Ev { tid: dsim::tid(), inv, ret, op, res });
                    }
                }));
            }
            for h in hs {
                h.join();
            }
            // quiescent listings of every kind, through both listing APIs
            for kind in 0..3u8 {
                for op in [Op::Handles { kind }, Op::Visit { kind }] {
                    let inv = dsim::step();
                    let res = do_op(&reg, &op);
                    h2.lock().unwrap().push(Ev { tid: 0, inv, ret: u64::MAX - 1, op, res });
                }
            }
        });
        let mut rep = RunReport::ok(sim);
        let simr = rep.sim.as_ref().unwrap();
        let h = hist.lock().unwrap().clone();
        let mut v = None;
        if !simr.panics.is_empty() {
            v = violation("panic", format!("{:?}", simr.panics));
        } else if simr.end == dsim::End::Completed {
            v = check(plan, &h, &storage, &mut rep);
        }
        rep.observations = format!("{:?}", h);
        rep.history_hash = crate::util::hash_str(&rep.observations);
        rep.count("ops", h.len() as u64);
        rep.violation = v;
        rep
    }
    fn shrink(&self, p: &Plan) -> Vec<Plan> {
        let mut out = vec![];
        if p.threads.len() > 1 {
            for i in 0..p.threads.len() {
                let mut q = p.clone();
                q.threads.remove(i);
                out.push(q);
            }
        }
        for i in 0..p.threads.len() {
            for j in 0..p.threads[i].len() {
                if p.threads[i].len() > 1 {
                    let mut q = p.clone();
                    q.threads[i].remove(j);
                    out.push(q);
                }
            }
        }
        for i in 0..p.prefill.len() {
            let mut q = p.clone();
            q.prefill.remove(i);
            out.push(q);
        }
        // simpler variants
        for i in 0..p.threads.len() {
            for j in 0..p.threads[i].len() {
                let mut q = p.clone();
                let changed = match &mut q.threads[i][j] {
                    Op::Create { variant, .. } | Op::Get { variant, .. } | Op::Delete { variant, .. } if *variant != 0 => {
                        *variant = 0;
                        true
                    }
                    _ => false,
                };
                if changed {
                    out.push(q);
                }
            }
        }
        out
    }
    fn real_components(&self) -> Vec<&'static str> {
        vec!["metrics_util::registry::Registry (get_or_create_*, get_*, delete_*, retain_*, clear, visit_*, get_*_handles)", "sharding by Key::get_hash via Hashable", "hashbrown raw-entry lookups", "metrics::Key equality/hash across construction paths"]
    }
    fn stub_components(&self) -> Vec<&'static str> {
        vec!["thread scheduler (dsim)", "counting Storage double (numbers every construction)", "RwLock acquisition (try-lock + spin reported to the scheduler)"]
    }
    fn assumptions(&self) -> Vec<&'static str> {
        vec!["clear / retain / visit / get_*_handles are documented as per-shard, not atomic across the registry: they are modelled as independent per-key sub-operations inside the call's window"]
    }
}

fn check(plan: &Plan, h: &[Ev], storage: &Arc<Counting>, rep: &mut RunReport) -> Option<Violation> {
    let mut calls: Vec<Call<Sub>> = vec![];
    let nk = plan.nkeys;
    for e in h {
        match (&e.op, &e.res) {
            (Op::Create { kind, key, .. }, Res::Id(id)) => calls.push(Call { inv: e.inv, ret: e.ret, op: Sub::Create(*kind, *key, *id) }),
            (Op::Get { kind, key, .. }, Res::OptId(r)) => calls.push(Call { inv: e.inv, ret: e.ret, op: Sub::Get(*kind, *key, *r) }),
            (Op::Delete { kind, key, .. }, Res::Bool(b)) => calls.push(Call { inv: e.inv, ret: e.ret, op: Sub::Delete(*kind, *key, *b) }),
            (Op::Clear, _) => {
                for kind in 0..3u8 {
                    for key in 0..nk {
                        calls.push(Call { inv: e.inv, ret: e.ret, op: Sub::DelIfPresent(kind, key) });
                    }
                }
            }
            (Op::Bump { kind, key, .. }, Res::Id(id)) => calls.push(Call { inv: e.inv, ret: e.ret, op: Sub::Bump(*kind, *key, *id) }),
            (Op::RetainBumped { kind }, _) => {
                for key in 0..nk {
                    calls.push(Call { inv: e.inv, ret: e.ret, op: Sub::DelIfUnbumped(*kind, key) });
                }
            }
            // a retain whose predicate rejects nothing removes nothing, whether or not it panics
            (Op::RetainPanic { .. }, _) => {}
            (Op::Retain { kind, keep }, _) => {
                for key in 0..nk {
                    if keep & (1 << key) == 0 {
                        calls.push(Call { inv: e.inv, ret: e.ret, op: Sub::DelIfPresent(*kind, key) });
                    }
                }
            }
            (Op::Handles { kind }, Res::Listing(l)) | (Op::Visit { kind }, Res::Listing(l)) => {
                let mut seen = BTreeSet::new();
                for (lk, id) in l {
                    match lk {
                        None => return violation("listing-foreign-key", format!("listing by t{} contains a key outside the pool (storage {})", e.tid, id)),
                        Some(k) => {
                            if !seen.insert(*k) {
                                return violation("listing-duplicate-key", format!("listing by t{} reports logical key {} twice", e.tid, k));
                            }
                        }
                    }
                }
                for key in 0..nk {
                    let r = l.iter().find(|(lk, _)| *lk == Some(key)).map(|(_, id)| *id);
                    calls.push(Call { inv: e.inv, ret: e.ret, op: Sub::Get(*kind, key, r) });
                }
            }
            _ => {}
        }
    }
    // prune DelIfPresent sub-ops for kinds never used (keeps the history short)
    let used_kinds: BTreeSet<u8> = calls.iter().filter_map(|c| match &c.op {
        Sub::Create(k, ..) | Sub::Bump(k, ..) => Some(*k),
        _ => None,
    }).collect();
    calls.retain(|c| match &c.op {
        Sub::DelIfPresent(k, _) | Sub::DelIfUnbumped(k, _) => used_kinds.contains(k),
        _ => true,
    });
    rep.count("subops", calls.len() as u64);
    if calls.len() > 60 {
        rep.count("history_too_long_skipped", 1);
        return None;
    }
    match wgl::check(MapModel::default(), &calls, 3_000_000) {
        wgl::Outcome::Linearizable => {
            rep.count("linearizable_histories", 1);
        }
        wgl::Outcome::BudgetExceeded => {
            rep.count("checker_budget_exceeded", 1);
        }
        wgl::Outcome::NotLinearizable => {
            let mut s = String::new();
            for e in h {
                s.push_str(&format!("t{}[{}..{}] {:?} -> {:?}; ", e.tid, e.inv, if e.ret > u64::MAX / 2 { 0 } else { e.ret }, e.op, e.res));
            }
            return violation("not-linearizable", format!("no sequential map explains the history: {}", s));
        }
    }
    // construction accounting: every constructed storage was handed out, none invented
    let constructed: BTreeSet<u64> = storage.log.lock().unwrap().iter().map(|x| x.2).collect();
    let returned: BTreeSet<u64> = h.iter().filter_map(|e| if let Res::Id(id) = e.res { Some(id) } else { None }).collect();
    if constructed != returned {
        return violation("construction-count", format!("storages constructed {:?} but get_or_create returned {:?}", constructed, returned));
    }
    // kinds never share: the storage double logs the kind it was constructed for
    for e in h {
        if let (Op::Create { kind, .. }, Res::Id(id)) = (&e.op, &e.res) {
            if let Some(c) = storage.log.lock().unwrap().iter().find(|x| x.2 == *id) {
                if c.0 != *kind {
                    return violation("kind-shared-storage", format!("get_or_create kind {} returned storage {} constructed for kind {}", kind, id, c.0));
                }
            }
        }
    }
    None
}
