//! C11 — the TCP exporter streams whole frames to every connected client, whatever others do.
//! Real `TcpBuilder::build` → `run_transport`, `drive_connection`, the crossbeam channel, the
//! handles; stub = mio shapes over the simulated stream pipes. The transport thread and the
//! emitter threads are dsim threads; harness clients connect, read at a drawn pace, stall, resume,
//! close, reset.

use crate::framework::*;
use crate::oracles::protoevent::{self as pe, Ev as PEv};
use dsim::Rng;
use metrics::{Key, KeyName, Label, Level, Metadata, Recorder, Unit};
use metrics_exporter_tcp::TcpBuilder;
use serde::{Deserialize, Serialize};
use std::collections::{BTreeMap, BTreeSet};
use std::net::SocketAddr;
use std::sync::{Arc, Mutex};

static MD: Metadata<'static> = Metadata::new("c11", Level::INFO, None);
const NAMES: [&str; 3] = ["tcp_a", "tcp_b", "tcp_c"];

#[derive(Clone, Debug, Serialize, Deserialize, PartialEq)]
pub enum Step {
    Describe { m: usize, unit: bool },
    Connect { client: usize, capacity: usize },
    /// emitter threads (1..=2), each emitting `n` metrics of kind `kind` on metric `m`
    Burst { per_thread: Vec<Vec<(usize, u8)>> },
    ReadAll { client: usize },
    ReadSome { client: usize, max: usize },
    Close { client: usize, reset: bool },
    Idle,
}

#[derive(Clone, Debug, Serialize, Deserialize)]
pub struct Plan {
    pub buffer: Option<usize>,
    pub steps: Vec<Step>,
    /// the application keeps only the metric handles it registered at start-up and lets the
    /// recorder value go out of scope: the handles (and the transport behind them) live on
    #[serde(default)]
    pub drop_recorder: bool,
}

#[derive(Clone, Debug)]
struct Emit {
    tid: u32,
    m: usize,
    kind: u8,
    tag: u64,
    burst: usize,
    inv: u64,
}

fn key_of(m: usize) -> Key {
    match m {
        0 => Key::from_name(NAMES[0]),
        1 => Key::from_parts(NAMES[1], vec![Label::new("l", "v")]),
        _ => Key::from_parts(NAMES[2], vec![Label::new("a", "1"), Label::new("b", "")]),
    }
}

pub struct C11Tcp;

impl Scenario for C11Tcp {
    type Plan = Plan;
    fn property(&self) -> &'static str {
        "C11"
    }
    fn name(&self) -> &'static str {
        "tcp"
    }
    fn horizon(&self) -> u64 {
        1200
    }
    fn fault_rates(&self) -> Vec<u64> {
        vec![0, 0, 20, 100, 300]
    }
    fn plan(&self, r: &mut Rng, tier: Tier) -> Plan {
        let buffer = *r.pick(&[None, Some(1usize), Some(2), Some(8), Some(8), Some(1024)]);
        let cap = buffer.unwrap_or(16).min(6);
        let nsteps = r.range(4, if tier == Tier::Thorough { 24 } else { 14 });
        let mut steps = vec![];
        let mut connected: Vec<usize> = vec![];
        let mut next_client = 0usize;
        for _ in 0..r.below(3) {
            steps.push(Step::Describe { m: r.below(3) as usize, unit: r.chance(500) });
            steps.push(Step::Idle);
        }
        steps.push(Step::Idle);
        for _ in 0..nsteps {
            match r.below(12) {
                0..=1 => {
                    if next_client < 3 {
                        steps.push(Step::Connect { client: next_client, capacity: *r.pick(&[1usize, 3, 7, 16, 40, 200, 65536, 65536]) });
                        connected.push(next_client);
                        next_client += 1;
                        if r.chance(700) {
                            steps.push(Step::Idle);
                        }
                    }
                }
                2..=5 => {
                    // mostly within the configured buffer; sometimes an overload (more than the buffer
                    // holds, from up to three threads at once): no delivery is promised for those, but
                    // the exporter must survive them and keep its framing
                    let overload = buffer.is_some() && r.chance(150);
                    // with a large (or no) buffer, sometimes a long burst that is still within it: a
                    // backlog of dozens of frames per client
                    let flood = !overload && buffer.map(|b| b >= 1024).unwrap_or(true) && r.chance(120);
                    let nt = if overload { r.range(2, 3) as usize } else { r.range(1, 2) as usize };
                    let mut per_thread = vec![];
                    let mut left = if overload { buffer.unwrap_or(4).min(8) * 2 + 3 } else if flood { 90 } else { cap };
                    // one burst in ten also describes metrics from its emitter threads (kinds 6/7 =
                    // describe without / with a unit; one unit per burst), so that descriptions
                    // travel through the channel next to metrics and race with whatever the
                    // transport is doing for its clients
                    let describing = !overload && r.chance(100);
                    let dkind = 6 + r.below(2) as u8;
                    for _ in 0..nt {
                        let n = if flood { r.range(34, 45) as usize } else { r.range(1, left.max(1) as u64) as usize };
                        left = left.saturating_sub(n);
                        per_thread.push((0..n).map(|_| (r.below(3) as usize, if describing && r.chance(400) { dkind } else { r.below(6) as u8 })).collect());
                        if left == 0 {
                            break;
                        }
                    }
                    steps.push(Step::Burst { per_thread });
                    steps.push(Step::Idle);
                }
                6..=7 => {
                    if !connected.is_empty() {
                        steps.push(Step::ReadAll { client: *r.pick(&connected) });
                        steps.push(Step::Idle);
                    }
                }
                8 => {
                    if !connected.is_empty() {
                        steps.push(Step::ReadSome { client: *r.pick(&connected), max: r.range(1, 40) as usize });
                    }
                }
                9 => {
                    if !connected.is_empty() && r.chance(600) {
                        let i = r.below(connected.len() as u64) as usize;
                        let c = connected.remove(i);
                        steps.push(Step::Close { client: c, reset: r.chance(300) });
                        if r.chance(500) {
                            steps.push(Step::Idle);
                        }
                    }
                }
                10 => {
                    // (not always followed by a pause: the next step can find the description still
                    // in the channel, e.g. a second description or a client that leaves or arrives)
                    steps.push(Step::Describe { m: r.below(3) as usize, unit: r.chance(500) });
                    if r.chance(600) {
                        steps.push(Step::Idle);
                    } else if r.chance(500) {
                        steps.push(Step::Describe { m: r.below(3) as usize, unit: r.chance(500) });
                    }
                }
                _ => steps.push(Step::Idle),
            }
        }
        // client churn (one plan in twelve): every client leaves, one more comes and goes, and a
        // burst that also describes metrics is emitted while the transport may not yet have noticed
        // that its last client is gone; whoever connects afterwards is owed all the metadata
        if cap >= 2 && r.chance(80) {
            for c in connected.drain(..) {
                steps.push(Step::Close { client: c, reset: r.chance(300) });
            }
            steps.push(Step::Idle);
            let a = next_client;
            steps.push(Step::Connect { client: a, capacity: *r.pick(&[40usize, 200, 65536]) });
            steps.push(Step::Idle);
            steps.push(Step::Close { client: a, reset: r.chance(300) });
            let dkind = 6 + r.below(2) as u8;
            let nt = r.range(1, 2) as usize;
            let mut left = cap;
            let mut per_thread: Vec<Vec<(usize, u8)>> = vec![];
            for t in 0..nt {
                if left < 2 {
                    break;
                }
                let n = r.range(2, left as u64) as usize;
                left -= n;
                let mut ops: Vec<(usize, u8)> = (0..n).map(|_| (r.below(3) as usize, if r.chance(400) { dkind } else { r.below(6) as u8 })).collect();
                if t == 0 {
                    ops[0].1 = r.below(6) as u8;
                    ops[n - 1].1 = dkind;
                }
                per_thread.push(ops);
            }
            steps.push(Step::Burst { per_thread });
            steps.push(Step::Idle);
            let b = next_client + 1;
            steps.push(Step::Connect { client: b, capacity: 65536 });
            steps.push(Step::Idle);
            steps.push(Step::ReadAll { client: b });
            steps.push(Step::Idle);
        }
        let drop_recorder = r.chance(50);
        if drop_recorder {
            // nothing can be described without the recorder
            steps.retain(|s| !matches!(s, Step::Describe { .. }));
            for s in steps.iter_mut() {
                if let Step::Burst { per_thread } = s {
                    for ops in per_thread.iter_mut() {
                        for op in ops.iter_mut() {
                            if op.1 >= 6 {
                                op.1 = 0;
                            }
                        }
                    }
                }
            }
        }
        Plan { buffer, steps, drop_recorder }
    }
    fn execute(&self, plan: &Plan, sched: &SchedSpec) -> RunReport {
        let net = crate::simnet::install(sched.faults.clone());
        let emits: Arc<Mutex<Vec<Emit>>> = Arc::new(Mutex::new(vec![]));
        // per client: (conn id, step index of connect, idle passed after connect before which burst index, closed at step)
        let clients: Arc<Mutex<BTreeMap<usize, ClientRec>>> = Arc::new(Mutex::new(BTreeMap::new()));
        let describes: Arc<Mutex<Vec<(usize, usize, bool)>>> = Arc::new(Mutex::new(vec![])); // (step idx, m, unit)
        let build_err: Arc<Mutex<Option<String>>> = Arc::new(Mutex::new(None));
        let p = plan.clone();
        let (e2, c2, d2, b2, net2) = (emits.clone(), clients.clone(), describes.clone(), build_err.clone(), net.clone());
        let sim = simulate(sched, 1_500_000, move || {
            let addr: SocketAddr = "127.0.0.1:5000".parse().unwrap();
            let rec = match TcpBuilder::new().listen_address(addr).buffer_size(p.buffer).build() {
                Ok(r) => Arc::new(r),
                Err(e) => {
                    *b2.lock().unwrap() = Some(format!("{}", e));
                    return;
                }
            };
            // handles registered at start-up (used for every emission once the recorder value is gone)
            let handles: Arc<Vec<(metrics::Counter, metrics::Gauge, metrics::Histogram)>> =
                Arc::new((0..3).map(|m| (rec.register_counter(&key_of(m), &MD), rec.register_gauge(&key_of(m), &MD), rec.register_histogram(&key_of(m), &MD))).collect());
            let rec: Option<Arc<metrics_exporter_tcp::TcpRecorder>> = if p.drop_recorder {
                drop(rec);
                None
            } else {
                Some(rec)
            };
            let idle = || dsim::sleep(1_000_000);
            idle();
            let mut burst_no = 0usize;
            let mut idles_seen = 0usize;
            let mut steps = p.steps.clone();
            // closing phase ("after faults stop"): everybody still connected reads, one more burst
            // within the buffer, then a few read/idle rounds
            steps.push(Step::Idle);
            let final_from = steps.len();
            for (si, step) in steps.iter().enumerate() {
                let _ = final_from;
                dsim::point("c11.step");
                match step {
                    Step::Describe { m, unit } => {
                        let u = if *unit { Some(Unit::Bytes) } else { None };
                        let kn = KeyName::from_const_str(NAMES[*m]);
                        let rec = match &rec {
                            Some(r) => r,
                            None => continue,
                        };
                        match m {
                            0 => rec.describe_counter(kn, u, "desc".into()),
                            1 => rec.describe_gauge(kn, u, "desc".into()),
                            _ => rec.describe_histogram(kn, u, "desc".into()),
                        }
                        d2.lock().unwrap().push((si, *m, *unit));
                    }
                    Step::Connect { client, capacity } => {
                        let peer: SocketAddr = format!("10.0.0.{}:4000", client + 1).parse().unwrap();
                        if let Some(id) = net2.peer_connect(addr, peer, *capacity) {
                            c2.lock().unwrap().insert(*client, ClientRec { conn: id, roomy: *capacity >= 65536, connect_step: si, connect_idle: idles_seen, first_sure_burst: usize::MAX, closed_step: None, stalled: false, reads: 0, quiescent_len: usize::MAX });
                        }
                    }
                    Step::Burst { per_thread } => {
                        burst_no += 1;
                        let mut hs = vec![];
                        for ops in per_thread {
                            let ops = ops.clone();
                            let rec = rec.clone();
                            let handles = handles.clone();
                            let emits = e2.clone();
                            let descs = d2.clone();
                            let bn = burst_no;
                            hs.push(dsim::spawn("emitter", move || {
                                let tid = dsim::tid();
                                for (k, (m, kind)) in ops.iter().enumerate() {
                                    dsim::point("c11.emit");
                                    let tag = ((bn as u64) << 32) | ((tid as u64) << 16) | (k as u64 + 1);
                                    let key = key_of(*m);
                                    let inv = dsim::step();
                                    if *kind >= 6 {
                                        let u = if *kind == 7 { Some(Unit::Bytes) } else { None };
                                        let kn = KeyName::from_const_str(NAMES[*m]);
                                        let rec = match &rec {
                                            Some(r) => r,
                                            None => continue,
                                        };
                                        match m {
                                            0 => rec.describe_counter(kn, u, "desc".into()),
                                            1 => rec.describe_gauge(kn, u, "desc".into()),
                                            _ => rec.describe_histogram(kn, u, "desc".into()),
                                        }
                                        descs.lock().unwrap().push((si, *m, *kind == 7));
                                        continue;
                                    }
                                    match (&rec, kind) {
                                        (Some(rec), 0) => rec.register_counter(&key, &MD).increment(tag),
                                        (Some(rec), 1) => rec.register_counter(&key, &MD).absolute(tag),
                                        (Some(rec), 2) => rec.register_gauge(&key, &MD).increment(tag as f64),
                                        (Some(rec), 3) => rec.register_gauge(&key, &MD).decrement(tag as f64),
                                        (Some(rec), 4) => rec.register_gauge(&key, &MD).set(tag as f64),
                                        (Some(rec), _) => rec.register_histogram(&key, &MD).record(tag as f64),
                                        (None, 0) => handles[*m].0.increment(tag),
                                        (None, 1) => handles[*m].0.absolute(tag),
                                        (None, 2) => handles[*m].1.increment(tag as f64),
                                        (None, 3) => handles[*m].1.decrement(tag as f64),
                                        (None, 4) => handles[*m].1.set(tag as f64),
                                        (None, _) => handles[*m].2.record(tag as f64),
                                    }
                                    emits.lock().unwrap().push(Emit { tid, m: *m, kind: *kind, tag, burst: bn, inv });
                                }
                            }));
                        }
                        for h in hs {
                            h.join();
                        }
                    }
                    Step::ReadAll { client } => {
                        if let Some(c) = c2.lock().unwrap().get_mut(client) {
                            if c.closed_step.is_none() {
                                net2.peer_read(c.conn, usize::MAX);
                                c.reads += 1;
                            }
                        }
                    }
                    Step::ReadSome { client, max } => {
                        if let Some(c) = c2.lock().unwrap().get_mut(client) {
                            if c.closed_step.is_none() {
                                net2.peer_read(c.conn, *max);
                                c.stalled = true;
                            }
                        }
                    }
                    Step::Close { client, reset } => {
                        if let Some(c) = c2.lock().unwrap().get_mut(client) {
                            if c.closed_step.is_none() {
                                net2.peer_close(c.conn, *reset);
                                c.closed_step = Some(si);
                            }
                        }
                    }
                    Step::Idle => {
                        idle();
                        idles_seen += 1;
                        let mut cl = c2.lock().unwrap();
                        for c in cl.values_mut() {
                            if c.first_sure_burst == usize::MAX && idles_seen > c.connect_idle {
                                c.first_sure_burst = burst_no + 1;
                            }
                        }
                    }
                }
            }
            // ---- closing phase: faults stop; drain everybody; final burst; drain again
            net2.faults.lock().unwrap().disable();
            let live: Vec<(usize, u64)> = c2.lock().unwrap().iter().filter(|(_, c)| c.closed_step.is_none()).map(|(k, c)| (*k, c.conn)).collect();
            let drain = || {
                for _ in 0..20_000 {
                    let mut total = 0usize;
                    for (_, conn) in &live {
                        total += net2.peer_read(*conn, usize::MAX).len();
                    }
                    idle();
                    if total == 0 {
                        break;
                    }
                }
            };
            drain();
            idle();
            {
                let mut cl = c2.lock().unwrap();
                let st = net2.st.lock().unwrap();
                for c in cl.values_mut() {
                    if c.first_sure_burst == usize::MAX {
                        c.first_sure_burst = burst_no + 1;
                    }
                    // nothing further will be emitted until the final burst: whatever is owed to a
                    // reading client must be on its connection by now, without the help of a later
                    // emission waking the transport up
                    c.quiescent_len = st.streams.get(&c.conn).map(|s| s.to_peer.len()).unwrap_or(0);
                }
            }
            burst_no += 1;
            let tid = dsim::tid();
            let n_final = p.buffer.unwrap_or(4).min(3).max(1);
            for k in 0..n_final {
                let tag = ((burst_no as u64) << 32) | ((tid as u64) << 16) | (k as u64 + 1);
                let inv = dsim::step();
                match &rec {
                    Some(rec) => rec.register_counter(&key_of(0), &MD).increment(tag),
                    None => handles[0].0.increment(tag),
                }
                e2.lock().unwrap().push(Emit { tid, m: 0, kind: 0, tag, burst: burst_no, inv });
            }
            idle();
            drain();
            drain();
            e2.lock().unwrap().push(Emit { tid: u32::MAX, m: 0, kind: 0, tag: 0, burst: burst_no, inv: 0 }); // marker: final burst number
        });
        crate::simnet::uninstall();
        let mut rep = RunReport::ok(sim);
        let simr = rep.sim.as_ref().unwrap();
        let faults = net.faults.lock().unwrap().fired.clone();
        let st = net.st.lock().unwrap();
        let mut v = None;
        let emits = emits.lock().unwrap().clone();
        let clients = clients.lock().unwrap().clone();
        let describes = describes.lock().unwrap().clone();
        if let Some(e) = build_err.lock().unwrap().clone() {
            v = violation("build-failed", format!("buffer_size({:?}): {}", plan.buffer, e));
        } else if !simr.panics.is_empty() {
            v = violation("transport-panic", format!("buffer_size({:?}): {:?}", plan.buffer, simr.panics));
        } else if simr.end == dsim::End::StepBudget {
            // every harness thread in this scenario is finite and sleeps on virtual time between
            // steps; a run can only exhaust 1.5M scheduling points if the transport thread never
            // goes back to waiting in poll (ordinary runs take a few hundred to a few thousand)
            v = violation("transport-busy-loop", format!("the transport thread kept running for {} scheduling points without ever blocking in poll again: other clients, the listener and the metric channel are starved (buffer_size {:?})", simr.steps, plan.buffer));
        } else if simr.end == dsim::End::Completed {
            v = check(plan, &emits, &clients, &describes, &st.streams.iter().map(|(k, s)| (*k, (s.to_peer.clone(), s.ended_by_fault || s.peer_closed || s.reset))).collect(), &faults);
        }
        let mut obs = String::new();
        for (id, s) in st.streams.iter() {
            obs.push_str(&format!("conn{}:{}b:{:x};", id, s.to_peer.len(), crate::util::hash_str(&format!("{:?}", s.to_peer))));
        }
        rep.history_hash = crate::util::hash_str(&obs);
        rep.observations = obs;
        rep.count("clients", clients.len() as u64);
        rep.count("emits", emits.len() as u64);
        rep.count("bytes_to_clients", st.streams.values().map(|s| s.to_peer.len() as u64).sum());
        rep.faults = faults;
        rep.violation = v;
        rep
    }
    fn shrink(&self, p: &Plan) -> Vec<Plan> {
        let mut out = vec![];
        for i in 0..p.steps.len() {
            let mut q = p.clone();
            q.steps.remove(i);
            out.push(q);
        }
        for i in 0..p.steps.len() {
            if let Step::Burst { per_thread } = &p.steps[i] {
                if per_thread.len() > 1 {
                    let mut q = p.clone();
                    if let Step::Burst { per_thread } = &mut q.steps[i] {
                        per_thread.pop();
                    }
                    out.push(q);
                }
                for t in 0..per_thread.len() {
                    if per_thread[t].len() > 1 {
                        let mut q = p.clone();
                        if let Step::Burst { per_thread } = &mut q.steps[i] {
                            per_thread[t].pop();
                        }
                        out.push(q);
                    }
                }
            }
        }
        out
    }
    fn real_components(&self) -> Vec<&'static str> {
        vec!["metrics_exporter_tcp::{TcpBuilder::build, run_transport, drive_connection, State, Handle}", "crossbeam-channel", "prost encoding (encode_length_delimited)"]
    }
    fn stub_components(&self) -> Vec<&'static str> {
        vec!["thread scheduler (dsim)", "mio Poll/Events/Waker/TcpListener/TcpStream (shim over the simulated stream pipes: bounded capacity, short writes, EAGAIN followed by a writable edge, EINTR, EPIPE, reset, edge-triggered readiness)", "SystemTime for the frame timestamp (simulated clock)", "client/metadata maps are ordered maps under the guard so fan-out order is seed-deterministic"]
    }
    fn assumptions(&self) -> Vec<&'static str> {
        vec!["bursts never exceed the configured buffer and are separated by transport-idle points (the property's 'rate within the configured buffer'); the closing phase runs with fault injection switched off ('after faults stop')"]
    }
}

#[derive(Clone, Debug)]
pub struct ClientRec {
    conn: u64,
    roomy: bool,
    connect_step: usize,
    connect_idle: usize,
    /// first burst number that started after an idle point following the connect
    first_sure_burst: usize,
    closed_step: Option<usize>,
    stalled: bool,
    reads: u32,
    /// bytes the exporter had written to this client at the quiescent point of the closing phase
    /// (faults off, everybody drained, transport idle) *before* the final burst was emitted
    quiescent_len: usize,
}

fn check(plan: &Plan, emits: &[Emit], clients: &BTreeMap<usize, ClientRec>, describes: &[(usize, usize, bool)], streams: &BTreeMap<u64, (Vec<u8>, bool)>, faults: &[FaultDecision]) -> Option<Violation> {
    let final_burst = emits.iter().find(|e| e.tid == u32::MAX).map(|e| e.burst).unwrap_or(usize::MAX);
    let emits: Vec<&Emit> = emits.iter().filter(|e| e.tid != u32::MAX).collect();
    let by_tag: BTreeMap<u64, &Emit> = emits.iter().map(|e| (e.tag, *e)).collect();
    let (desc_ok, burst_ok) = rate_ok(plan);
    for (ci, c) in clients {
        let (bytes, killed) = match streams.get(&c.conn) {
            Some(s) => (&s.0, s.1),
            None => continue,
        };
        let (evs, frag) = match pe::decode_stream(bytes) {
            Ok(x) => x,
            Err(e) => return violation("torn-frame", format!("client {}: byte stream is not a concatenation of whole length-delimited Event messages: {} (buffer_size {:?}, {} bytes)", ci, e, plan.buffer, bytes.len())),
        };
        if frag > 0 && !killed && c.closed_step.is_none() {
            return violation("trailing-fragment", format!("client {} is still connected and has read everything, yet its stream ends with a {}-byte fragment of a frame", ci, frag));
        }
        // metadata first, then metrics
        let mut seen_metric = false;
        let mut meta_names = BTreeSet::new();
        let mut got_tags: Vec<u64> = vec![];
        for ev in &evs {
            match ev {
                PEv::Metadata { name, typ, unit, desc } => {
                    if seen_metric {
                        return violation("metadata-after-metric", format!("client {}: metadata for {} arrives after metric events", ci, name));
                    }
                    let m = match NAMES.iter().position(|n| n == name) {
                        Some(m) => m,
                        None => return violation("metadata-foreign", format!("client {}: metadata for unknown metric {:?}", ci, name)),
                    };
                    if *typ != m as u64 {
                        return violation("metadata-wrong", format!("client {}: {} announced with type {}, described as {}", ci, name, typ, m));
                    }
                    let known: Vec<&(usize, usize, bool)> = describes.iter().filter(|d| d.1 == m && d.0 < c.connect_step + 1000).collect();
                    if !describes.iter().any(|d| d.1 == m && d.0 < c.closed_step.unwrap_or(usize::MAX)) {
                        return violation("metadata-foreign", format!("client {}: metadata for {} which had not been described", ci, name));
                    }
                    let _ = known;
                    if desc.as_deref() != Some("desc") {
                        return violation("metadata-wrong", format!("client {}: {} description {:?}", ci, name, desc));
                    }
                    // unit = the latest describe before the connect (an idle point separates them) or any later one if racing
                    let units: BTreeSet<Option<String>> = describes.iter().filter(|d| d.1 == m).map(|d| if d.2 { Some("bytes".to_string()) } else { None }).collect();
                    if !units.contains(unit) {
                        return violation("metadata-wrong", format!("client {}: {} unit {:?} was never given", ci, name, unit));
                    }
                    // "the metadata known when it connected": when every describe of this metric made
                    // before the connect had been taken in by the transport (an idle point lies between
                    // the last of them and the connect, all within the channel's rate), the first
                    // metadata frame for it must carry that last describe's unit
                    if !seen_metric && !meta_names.contains(name) {
                        let before: Vec<&(usize, usize, bool)> = describes.iter().filter(|d| d.1 == m && d.0 < c.connect_step).collect();
                        if let Some(last) = before.last() {
                            // (a describe of this metric right after the connect, with no idle point
                            // in between, can still be taken in before the connection is accepted)
                            let raced_later = describes.iter().any(|d| d.1 == m && d.0 > c.connect_step && !plan.steps.iter().enumerate().any(|(i, s)| *s == Step::Idle && i > c.connect_step && i < d.0));
                            let settled = !raced_later && plan.steps.iter().enumerate().any(|(i, s)| *s == Step::Idle && i > last.0 && i < c.connect_step) && before.iter().all(|d| desc_ok.get(&d.0).copied().unwrap_or(false));
                            let want = if last.2 { Some("bytes".to_string()) } else { None };
                            if settled && *unit != want {
                                return violation("metadata-stale", format!("client {} (connected at step {}): the metadata sent for {} carries unit {:?}, but the last description given before it connected (step {}, followed by a transport-idle point) had unit {:?}", ci, c.connect_step, name, unit, last.0, want));
                            }
                        }
                    }
                    if !meta_names.insert(name.clone()) {
                        return violation("metadata-duplicate", format!("client {}: metadata for {} sent twice", ci, name));
                    }
                }
                PEv::Metric { name, labels, op, bits, has_ts } => {
                    seen_metric = true;
                    // recover the tag from the value
                    let tag = if *op <= 5 { *bits } else { f64::from_bits(*bits) as u64 };
                    let e = match by_tag.get(&tag) {
                        Some(e) => *e,
                        None => return violation("metric-fabricated", format!("client {}: metric {} op {} value {} was never emitted", ci, name, op, tag)),
                    };
                    let want_op = 4 + e.kind as u32;
                    let want_labels: BTreeMap<String, String> = key_of(e.m).labels().map(|l| (l.key().to_string(), l.value().to_string())).collect();
                    if name != NAMES[e.m] || *op != want_op || *labels != want_labels || !has_ts {
                        return violation("metric-mangled", format!("client {}: emitted ({} {:?} op {}) arrived as ({} {:?} op {} ts {})", ci, NAMES[e.m], want_labels, want_op, name, labels, op, has_ts));
                    }
                    if got_tags.contains(&tag) {
                        return violation("metric-duplicated", format!("client {}: metric value {} delivered twice", ci, tag));
                    }
                    got_tags.push(tag);
                }
            }
        }
        // metadata completeness: everything described before an idle point that precedes the connect
        for d in describes {
            // describes are followed by an Idle in the plan prologue; later ones race with connects
            let idle_between = plan.steps.iter().enumerate().any(|(i, s)| *s == Step::Idle && i > d.0 && i < c.connect_step);
            // (a backed-up client may have had queued frames, metadata included, discarded oldest-first)
            // … and only when the client's initial frames could go out undisturbed: no fault on its
            // connection and a transport-idle point between its connect and the next burst
            let undisturbed = !faults.iter().any(|f| f.stream.ends_with(&format!(":{}", c.conn)))
                && plan.steps.iter().enumerate().skip(c.connect_step + 1).find(|(_, s)| matches!(s, Step::Burst { .. } | Step::Idle)).map(|(_, s)| *s == Step::Idle).unwrap_or(true);
            if idle_between && undisturbed && c.roomy && desc_ok.get(&d.0).copied().unwrap_or(false) && d.0 < c.connect_step && !meta_names.contains(NAMES[d.1]) && (!evs.is_empty() || (c.closed_step.is_none())) && !killed {
                return violation("metadata-missing", format!("client {}: {} was described (step {}) and the transport was idle before the client connected (step {}), but no metadata for it was sent", ci, NAMES[d.1], d.0, c.connect_step));
            }
        }
        // per-emitter order
        let mut last_pos: BTreeMap<(usize, u32), u64> = BTreeMap::new();
        for t in &got_tags {
            let e = by_tag[t];
            let k = (e.burst, e.tid);
            if let Some(prev) = last_pos.get(&k) {
                if *prev > (t & 0xffff) {
                    return violation("metric-reordered", format!("client {}: emissions of one thread arrived out of order (burst {}, thread {})", ci, e.burst, e.tid));
                }
            }
            last_pos.insert(k, t & 0xffff);
        }
        // bursts must arrive in order too
        let bursts: Vec<usize> = got_tags.iter().map(|t| by_tag[t].burst).collect();
        if bursts.windows(2).any(|w| w[0] > w[1]) {
            return violation("metric-reordered", format!("client {}: bursts arrived out of order {:?}", ci, bursts));
        }
        // delivery: a client that was accepted, never stalled and still connected gets everything
        // emitted after its accept completed; everybody still connected gets the final burst
        let quiescent_tags: BTreeSet<u64> = {
            let n = c.quiescent_len.min(bytes.len());
            match pe::decode_stream(&bytes[..n]) {
                Ok((evs, _)) => evs.iter().filter_map(|ev| if let PEv::Metric { op, bits, .. } = ev { Some(if *op <= 5 { *bits } else { f64::from_bits(*bits) as u64 }) } else { None }).collect(),
                Err(_) => BTreeSet::new(),
            }
        };
        if c.closed_step.is_none() && !killed {
            for e in &emits {
                let must_q = e.burst != final_burst && e.burst >= c.first_sure_burst && !c.stalled && c.roomy && burst_ok.get(&e.burst).copied().unwrap_or(false) && plan_reads_each_burst(plan, *ci, c);
                if must_q && c.quiescent_len != usize::MAX && got_tags.contains(&e.tag) && !quiescent_tags.contains(&e.tag) {
                    return violation(
                        "metric-delivered-only-after-later-traffic",
                        format!("client {} (connected at step {}, reading): the metric emitted in burst {} (value {}) was still not on its connection when faults had stopped, everybody had drained and the transport had gone idle; it only arrived after the final burst woke the transport again (buffer_size {:?})", ci, c.connect_step, e.burst, e.tag, plan.buffer),
                    );
                }
            }
            for e in &emits {
                let must = (e.burst >= c.first_sure_burst && !c.stalled && c.roomy && burst_ok.get(&e.burst).copied().unwrap_or(false) && plan_reads_each_burst(plan, *ci, c)) || e.burst == final_burst;
                if must && !got_tags.contains(&e.tag) {
                    let which = if e.burst == final_burst { "final burst (after faults stopped, everybody drained)" } else { "burst" };
                    return violation(
                        "metric-not-delivered",
                        format!("client {} (connected at step {}, reading, never closed) did not receive the metric emitted in {} {} (value {}); it received {} of {} emitted (buffer_size {:?})", ci, c.connect_step, which, e.burst, e.tag, got_tags.len(), emits.len(), plan.buffer),
                    );
                }
            }
        }
    }
    None
}

/// Channel messages are only guaranteed to get through when no more than `buffer` of them are sent
/// between two transport-idle points. Returns (describe step -> within rate, burst number -> within rate).
fn rate_ok(plan: &Plan) -> (BTreeMap<usize, bool>, BTreeMap<usize, bool>) {
    let limit = plan.buffer.unwrap_or(usize::MAX);
    let mut desc_ok = BTreeMap::new();
    let mut burst_ok = BTreeMap::new();
    let mut seg_desc: Vec<usize> = vec![];
    let mut seg_bursts: Vec<usize> = vec![];
    let mut count = 0usize;
    let mut burst_no = 0usize;
    let mut flush = |seg_desc: &mut Vec<usize>, seg_bursts: &mut Vec<usize>, count: &mut usize| {
        for d in seg_desc.drain(..) {
            desc_ok.insert(d, *count <= limit);
        }
        for b in seg_bursts.drain(..) {
            burst_ok.insert(b, *count <= limit);
        }
        *count = 0;
    };
    for (i, s) in plan.steps.iter().enumerate() {
        match s {
            Step::Describe { .. } => {
                count += 1;
                seg_desc.push(i);
            }
            Step::Burst { per_thread } => {
                burst_no += 1;
                count += per_thread.iter().map(|t| t.len()).sum::<usize>();
                seg_bursts.push(burst_no);
                seg_desc.push(i); // (descriptions made by the burst's threads carry its step index)
            }
            Step::Idle => flush(&mut seg_desc, &mut seg_bursts, &mut count),
            _ => {}
        }
    }
    flush(&mut seg_desc, &mut seg_bursts, &mut count);
    (desc_ok, burst_ok)
}

/// A client counts as "reading promptly" when every Burst after its connect is followed by a
/// ReadAll of that client before the next Burst.
fn plan_reads_each_burst(plan: &Plan, ci: usize, c: &ClientRec) -> bool {
    let mut pending = false;
    for (i, s) in plan.steps.iter().enumerate() {
        if i <= c.connect_step {
            continue;
        }
        match s {
            Step::Burst { .. } => {
                if pending {
                    return false;
                }
                pending = true;
            }
            Step::ReadAll { client } if *client == ci => pending = false,
            _ => {}
        }
    }
    // the closing phase reads everything
    true
}
