//! C02 — the global recorder is installed at most once and is seen whole by everyone.
//! Cell-level scenario: a fresh `RecorderOnceCell` per run, every atomic step a sync point.

use crate::doubles::{new_log, LogRecorder, Shared};
use crate::framework::*;
use dsim::Rng;
use metrics::{KeyName, __VerifRecorderOnceCell as Cell};
use serde::{Deserialize, Serialize};
use std::sync::atomic::Ordering;
use std::sync::{Arc, Mutex};

#[derive(Clone, Debug, Serialize, Deserialize)]
pub struct Plan {
    pub installers: u32,
    pub emitters: u32,
    pub loads: u32,
}

pub struct C02Cell;

#[derive(Default)]
struct Obs {
    // (installer id, inv step, ret step, ok)
    sets: Vec<(u32, u64, u64, bool)>,
    // (tid, inv, ret, Some(recorder id) | None)
    loads: Vec<(u32, u64, u64, Option<u32>)>,
    errors: Vec<(String, String)>,
}

impl Scenario for C02Cell {
    type Plan = Plan;
    fn property(&self) -> &'static str {
        "C02"
    }
    fn name(&self) -> &'static str {
        "cell"
    }
    fn plan(&self, r: &mut Rng, _tier: Tier) -> Plan {
        Plan { installers: r.range(2, 4) as u32, emitters: r.range(0, 3) as u32, loads: r.range(1, 6) as u32 }
    }
    fn horizon(&self) -> u64 {
        40
    }
    fn execute(&self, plan: &Plan, sched: &SchedSpec) -> RunReport {
        let obs = Arc::new(Mutex::new(Obs::default()));
        let log = new_log();
        let shareds: Vec<Arc<Shared>> = (0..plan.installers).map(|_| Shared::new(log.clone())).collect();
        let p = plan.clone();
        let obs2 = obs.clone();
        let shareds2 = shareds.clone();
        let log2 = log.clone();
        let sim = simulate(sched, 20_000, move || {
            let cell: &'static Cell = Box::leak(Box::new(Cell::new()));
            let mut hs = Vec::new();
            for i in 0..p.installers {
                let obs = obs2.clone();
                let sh = shareds2[i as usize].clone();
                hs.push(dsim::spawn(&format!("installer{}", i), move || {
                    dsim::point("c02.set.begin");
                    let rec = LogRecorder::new(i, sh.clone());
                    let inv = dsim::step();
                    let res = cell.set(rec);
                    let ret = dsim::step();
                    dsim::point("c02.set.end");
                    let mut o = obs.lock().unwrap();
                    match res {
                        Ok(()) => o.sets.push((i, inv, ret, true)),
                        Err(e) => {
                            o.sets.push((i, inv, ret, false));
                            let r = e.into_inner();
                            if r.id != i || !r.intact() {
                                o.errors.push(("loser-got-wrong-recorder".into(), format!("installer {} got back recorder id {} intact={}", i, r.id, r.intact())));
                            }
                            if sh.drops.load(Ordering::SeqCst) != 0 {
                                o.errors.push(("loser-recorder-dropped-by-library".into(), format!("installer {}: drop count {} before the caller dropped it", i, sh.drops.load(Ordering::SeqCst))));
                            }
                            drop(o);
                            drop(r);
                            if sh.drops.load(Ordering::SeqCst) != 1 {
                                obs.lock().unwrap().errors.push(("loser-recorder-drop-count".into(), format!("installer {}: drop count {} after caller drop", i, sh.drops.load(Ordering::SeqCst))));
                            }
                        }
                    }
                }));
            }
            for e in 0..p.emitters {
                let obs = obs2.clone();
                let log = log2.clone();
                let loads = p.loads;
                hs.push(dsim::spawn(&format!("emitter{}", e), move || {
                    for _ in 0..loads {
                        dsim::point("c02.load.begin");
                        let inv = dsim::step();
                        let got = cell.try_load();
                        let ret = dsim::step();
                        let id = got.map(|rec| {
                            let before = log.lock().unwrap().len();
                            rec.describe_counter(KeyName::from_const_str("c02"), None, "".into());
                            let l = log.lock().unwrap();
                            if l.len() != before + 1 {
                                return u32::MAX;
                            }
                            let ev = &l[before];
                            if ev.value == "CORRUPT" {
                                u32::MAX - 1
                            } else {
                                ev.rec
                            }
                        });
                        obs.lock().unwrap().loads.push((dsim::tid(), inv, ret, id));
                    }
                }));
            }
            for h in hs {
                h.join();
            }
            // quiescent load
            let inv = dsim::step();
            let got = cell.try_load();
            let id = got.map(|rec| {
                let before = log2.lock().unwrap().len();
                rec.describe_counter(KeyName::from_const_str("c02"), None, "".into());
                let l = log2.lock().unwrap();
                l.get(before).map(|e| e.rec).unwrap_or(u32::MAX)
            });
            obs2.lock().unwrap().loads.push((0, inv, u64::MAX, id));
        });
        let mut rep = RunReport::ok(sim);
        let o = obs.lock().unwrap();
        let mut v: Option<Violation> = None;
        let sim = rep.sim.as_ref().unwrap();
        if !sim.panics.is_empty() {
            v = violation("panic", format!("{:?}", sim.panics));
        }
        if sim.end == dsim::End::Completed && v.is_none() {
            if let Some((c, d)) = o.errors.first() {
                v = violation(c, d.clone());
            }
            let winners: Vec<&(u32, u64, u64, bool)> = o.sets.iter().filter(|s| s.3).collect();
            if v.is_none() && winners.len() > 1 {
                v = violation("two-winners", format!("installers {:?} all got Ok", winners.iter().map(|w| w.0).collect::<Vec<_>>()));
            }
            if v.is_none() && winners.is_empty() {
                v = violation("no-winner", "every installer failed although the cell was fresh".into());
            }
            if v.is_none() {
                let w = winners[0];
                if shareds[w.0 as usize].drops.load(Ordering::SeqCst) != 0 {
                    v = violation("winner-dropped", format!("installed recorder {} was dropped", w.0));
                }
                for l in &o.loads {
                    if v.is_some() {
                        break;
                    }
                    match l.3 {
                        Some(id) if id != w.0 => {
                            v = violation("load-wrong-recorder", format!("load by t{} (steps {}..{}) reached recorder {:?}, winner is {}", l.0, l.1, l.2, id as i64, w.0));
                        }
                        Some(_) if l.2 < w.1 => {
                            v = violation("load-before-install", format!("load returned at step {} before the winning set was invoked at {}", l.2, w.1));
                        }
                        None if l.1 > w.2 => {
                            v = violation("load-none-after-install", format!("load invoked at step {} after winning set returned at {} saw no recorder", l.1, w.2));
                        }
                        _ => {}
                    }
                }
                // stability: once Some, always Some
                for a in &o.loads {
                    for b in &o.loads {
                        if v.is_none() && a.3.is_some() && a.2 < b.1 && b.3.is_none() {
                            v = violation("load-unstable", format!("load at {}..{} saw the recorder, later load at {}..{} saw none", a.1, a.2, b.1, b.2));
                        }
                    }
                }
                // loser drops exactly once, by the caller
                for s in o.sets.iter().filter(|s| !s.3) {
                    if v.is_none() && shareds[s.0 as usize].drops.load(Ordering::SeqCst) != 1 {
                        v = violation("loser-recorder-drop-count", format!("installer {} final drop count {}", s.0, shareds[s.0 as usize].drops.load(Ordering::SeqCst)));
                    }
                }
            }
        }
        rep.observations = format!("sets={:?} loads={:?}", o.sets, o.loads);
        rep.history_hash = crate::util::hash_str(&rep.observations);
        rep.count("sets", o.sets.len() as u64);
        rep.count("loads", o.loads.len() as u64);
        rep.count("loads_some", o.loads.iter().filter(|l| l.3.is_some()).count() as u64);
        rep.count("loads_none", o.loads.iter().filter(|l| l.3.is_none()).count() as u64);
        rep.violation = v;
        rep
    }
    fn shrink(&self, p: &Plan) -> Vec<Plan> {
        let mut v = vec![];
        if p.installers > 1 {
            v.push(Plan { installers: p.installers - 1, ..p.clone() });
        }
        if p.emitters > 0 {
            v.push(Plan { emitters: p.emitters - 1, ..p.clone() });
        }
        if p.loads > 1 {
            v.push(Plan { loads: p.loads - 1, ..p.clone() });
        }
        v
    }
    fn real_components(&self) -> Vec<&'static str> {
        vec!["metrics::recorder::cell::RecorderOnceCell::{set,try_load}", "metrics::SetRecorderError"]
    }
    fn stub_components(&self) -> Vec<&'static str> {
        vec!["thread scheduler (dsim)", "recorder doubles"]
    }
}

// ---------------------------------------------------------------------------------------------
// Facade-level scenario: the real process-wide cell through `set_global_recorder` and the emission
// macros (`with_recorder` on every emission), racing installers and emitters. The cell is put back
// to "uninstalled" between runs through the guarded hook `__verif_reset_global_recorder`.

#[derive(Clone, Debug, Serialize, Deserialize)]
pub struct GPlan {
    pub installers: u32,
    /// per emitter thread: number of emissions
    pub emitters: Vec<u32>,
    /// installers start after this many scheduling points of idling (lets emitters go first)
    pub installer_delay: u32,
    /// per emitter thread: scheduling points it first spends inside a local-recorder scope (0 =
    /// no scope); the install may happen while the scope is open
    #[serde(default)]
    pub scoped: Vec<u32>,
    /// emitter 0 makes this many emissions during which the installed recorder panics (caught at
    /// the call site) before its ordinary emissions
    #[serde(default)]
    pub panicking_calls: u32,
}

pub struct C02Global;

impl Scenario for C02Global {
    type Plan = GPlan;
    fn property(&self) -> &'static str {
        "C02"
    }
    fn name(&self) -> &'static str {
        "global"
    }
    fn plan(&self, r: &mut Rng, _tier: Tier) -> GPlan {
        let n = r.range(1, 3) as usize;
        GPlan { installers: r.range(1, 3) as u32, emitters: (0..n).map(|_| r.range(1, 5) as u32).collect(), installer_delay: r.below(4) as u32, scoped: (0..n).map(|_| if r.chance(350) { r.range(1, 6) as u32 } else { 0 }).collect(), panicking_calls: if r.chance(100) { 20 } else { 0 } }
    }
    fn horizon(&self) -> u64 {
        60
    }
    fn execute(&self, plan: &GPlan, sched: &SchedSpec) -> RunReport {
        metrics::__verif_reset_global_recorder();
        let obs = Arc::new(Mutex::new(Obs::default()));
        let log = new_log();
        let shareds: Vec<Arc<Shared>> = (0..plan.installers).map(|_| Shared::new(log.clone())).collect();
        let (p, obs2, shareds2, log2) = (plan.clone(), obs.clone(), shareds.clone(), log.clone());
        let sim = simulate(sched, 40_000, move || {
            let mut hs = Vec::new();
            for i in 0..p.installers {
                let obs = obs2.clone();
                let sh = shareds2[i as usize].clone();
                let delay = p.installer_delay;
                let ilog = log2.clone();
                hs.push(dsim::spawn(&format!("installer{}", i), move || {
                    for _ in 0..delay {
                        dsim::point("c02g.idle");
                    }
                    let rec = LogRecorder::new(i, sh.clone());
                    let inv = dsim::step();
                    let res = metrics::set_global_recorder(rec);
                    let ret = dsim::step();
                    dsim::point("c02g.set.end");
                    let mut o = obs.lock().unwrap();
                    let mut rejected = None;
                    match res {
                        Ok(()) => o.sets.push((i, inv, ret, true)),
                        Err(e) => {
                            o.sets.push((i, inv, ret, false));
                            let r = e.into_inner();
                            if r.id != i || !r.intact() {
                                o.errors.push(("loser-got-wrong-recorder".into(), format!("installer {} got back recorder id {} intact={}", i, r.id, r.intact())));
                            }
                            if sh.drops.load(Ordering::SeqCst) != 0 {
                                o.errors.push(("loser-recorder-dropped-by-library".into(), format!("installer {}: drop count {} before the caller dropped it", i, sh.drops.load(Ordering::SeqCst))));
                            }
                            rejected = Some(r);
                        }
                    }
                    drop(o);
                    drop(rejected);
                    // an installing thread goes on to emit, whether its install was accepted or not
                    for _ in 0..2 {
                        dsim::point("c02g.installer.emit");
                        let me = dsim::tid();
                        let before = ilog.lock().unwrap().len();
                        let inv = dsim::step();
                        metrics::counter!("c02_global_by_installer").increment(1);
                        let ret = dsim::step();
                        let l = ilog.lock().unwrap();
                        let mine: Vec<&crate::doubles::Ev> = l[before..].iter().filter(|e| e.tid == me && e.op.starts_with("register")).collect();
                        let id = match mine.len() {
                            0 => None,
                            1 => Some(mine[0].rec),
                            _ => Some(u32::MAX),
                        };
                        drop(l);
                        obs.lock().unwrap().loads.push((me, inv, ret, id));
                    }
                }));
            }
            for (e, n) in p.emitters.iter().enumerate() {
                let obs = obs2.clone();
                let log = log2.clone();
                let n = *n;
                let scoped = p.scoped.get(e).copied().unwrap_or(0);
                let panicking = p.panicking_calls;
                let all_shareds = shareds2.clone();
                let local_shared = Shared::new(log2.clone());
                hs.push(dsim::spawn(&format!("emitter{}", e), move || {
                    if scoped > 0 {
                        // a local scope that may span the global install: inside it emissions go to
                        // the local recorder; once it is closed the thread is back on the global path
                        let local = LogRecorder::new(1000 + e as u32, local_shared.clone());
                        let before = log.lock().unwrap().len();
                        // (scopes of 4 points and more end in a panic of the closure, caught here:
                        // the thread must be back on the global path all the same)
                        struct ScopePanic;
                        let r = std::panic::catch_unwind(std::panic::AssertUnwindSafe(|| {
                            metrics::with_local_recorder(&local, || {
                                for _ in 0..scoped {
                                    dsim::point("c02g.in_scope");
                                }
                                metrics::counter!("c02_scoped").increment(1);
                                if scoped >= 4 {
                                    std::panic::resume_unwind(Box::new(ScopePanic));
                                }
                            })
                        }));
                        if let Err(p) = r {
                            if !p.is::<ScopePanic>() {
                                std::panic::resume_unwind(p);
                            }
                        }
                        let me = dsim::tid();
                        let l = log.lock().unwrap();
                        let mine: Vec<u32> = l[before..].iter().filter(|ev| ev.tid == me && ev.op.starts_with("register")).map(|ev| ev.rec).collect();
                        if mine != vec![1000 + e as u32] {
                            obs.lock().unwrap().errors.push(("scoped-emission-misdirected".into(), format!("emission inside a local scope of emitter {} reached recorders {:?}", e, mine)));
                        }
                    }
                    for k in 0..n {
                        if e == 0 && k == 1 {
                            // user-supplied recorder code that panics, many times on one thread: none of it
                            // may change where this thread's later emissions go
                            for _ in 0..panicking {
                                dsim::point("c02g.panicking.emit");
                                let me = dsim::tid();
                                for sh in &all_shareds {
                                    crate::doubles::set_flag(&sh.panic_next, me);
                                }
                                let r = std::panic::catch_unwind(std::panic::AssertUnwindSafe(|| {
                                    metrics::counter!("c02_panicking").increment(1);
                                }));
                                for sh in &all_shareds {
                                    crate::doubles::take_flag(&sh.panic_next, me);
                                }
                                if let Err(p) = r {
                                    if !p.is::<crate::doubles::DoublePanic>() {
                                        std::panic::resume_unwind(p);
                                    }
                                }
                            }
                        }
                        dsim::point("c02g.emit.begin");
                        let me = dsim::tid();
                        let before = log.lock().unwrap().len();
                        let inv = dsim::step();
                        match k % 3 {
                            0 => metrics::counter!("c02_global", "k" => "v").increment(1),
                            1 => metrics::describe_gauge!("c02_global_g", "d"),
                            _ => metrics::histogram!("c02_global_h").record(1.0),
                        }
                        let ret = dsim::step();
                        let l = log.lock().unwrap();
                        let mine: Vec<&crate::doubles::Ev> = l[before..].iter().filter(|e| e.tid == me && (e.op.starts_with("register") || e.op.starts_with("describe"))).collect();
                        let id = match mine.len() {
                            0 => None,
                            1 if mine[0].value == "CORRUPT" => Some(u32::MAX - 1),
                            1 => Some(mine[0].rec),
                            _ => Some(u32::MAX),
                        };
                        drop(l);
                        obs.lock().unwrap().loads.push((me, inv, ret, id));
                    }
                }));
            }
            for h in hs {
                h.join();
            }
            // quiescent emission
            let before = log2.lock().unwrap().len();
            let inv = dsim::step();
            metrics::counter!("c02_global_final").increment(1);
            let id = log2.lock().unwrap().get(before).map(|e| e.rec);
            obs2.lock().unwrap().loads.push((0, inv, u64::MAX, id));
        });
        metrics::__verif_reset_global_recorder();
        let mut rep = RunReport::ok(sim);
        let o = obs.lock().unwrap();
        let mut v: Option<Violation> = None;
        let sim = rep.sim.as_ref().unwrap();
        if !sim.panics.is_empty() {
            v = violation("panic", format!("{:?}", sim.panics));
        }
        if sim.end == dsim::End::Completed && v.is_none() {
            if let Some((c, d)) = o.errors.first() {
                v = violation(c, d.clone());
            }
            let winners: Vec<&(u32, u64, u64, bool)> = o.sets.iter().filter(|s| s.3).collect();
            if v.is_none() && winners.len() > 1 {
                v = violation("two-winners", format!("installers {:?} all got Ok from set_global_recorder", winners.iter().map(|w| w.0).collect::<Vec<_>>()));
            }
            if v.is_none() && winners.is_empty() {
                v = violation("no-winner", "every set_global_recorder failed although no recorder was installed".into());
            }
            if v.is_none() {
                let w = winners[0];
                if shareds[w.0 as usize].drops.load(Ordering::SeqCst) != 0 {
                    v = violation("winner-dropped", format!("installed recorder {} was dropped", w.0));
                }
                for l in &o.loads {
                    if v.is_some() {
                        break;
                    }
                    match l.3 {
                        Some(id) if id != w.0 => {
                            v = violation("emission-wrong-recorder", format!("emission by t{} (steps {}..{}) reached recorder {:?} (4294967295 = several, 4294967294 = corrupt), the installed one is {}", l.0, l.1, l.2, id, w.0));
                        }
                        Some(_) if l.2 < w.1 => {
                            v = violation("emission-before-install", format!("emission returned at step {} before the winning install was invoked at {}, yet reached a recorder", l.2, w.1));
                        }
                        None if l.1 > w.2 => {
                            v = violation("emission-lost-after-install", format!("emission by t{} invoked at step {} after the winning install returned at {} reached no recorder", l.0, l.1, w.2));
                        }
                        _ => {}
                    }
                }
                // once any emission has been dispatched to the recorder, every later one is too
                for a in &o.loads {
                    for b in &o.loads {
                        if v.is_none() && a.3.is_some() && a.2 < b.1 && b.3.is_none() {
                            v = violation("emission-lost-after-install", format!("emission at {}..{} reached the recorder, the later emission by t{} at {}..{} reached none", a.1, a.2, b.0, b.1, b.2));
                        }
                    }
                }
                for s in o.sets.iter().filter(|s| !s.3) {
                    if v.is_none() && shareds[s.0 as usize].drops.load(Ordering::SeqCst) != 1 {
                        v = violation("loser-recorder-drop-count", format!("installer {} final drop count {}", s.0, shareds[s.0 as usize].drops.load(Ordering::SeqCst)));
                    }
                }
            }
        }
        rep.observations = format!("sets={:?} emissions={:?}", o.sets, o.loads);
        rep.history_hash = crate::util::hash_str(&rep.observations);
        rep.count("installs", o.sets.len() as u64);
        rep.count("emissions", o.loads.len() as u64);
        rep.count("emissions_dispatched", o.loads.iter().filter(|l| l.3.is_some()).count() as u64);
        rep.count("emissions_noop", o.loads.iter().filter(|l| l.3.is_none()).count() as u64);
        rep.violation = v;
        rep
    }
    fn shrink(&self, p: &GPlan) -> Vec<GPlan> {
        let mut v = vec![];
        if p.installers > 1 {
            v.push(GPlan { installers: p.installers - 1, ..p.clone() });
        }
        for i in 0..p.emitters.len() {
            let mut q = p.clone();
            if q.emitters[i] > 1 {
                q.emitters[i] -= 1;
                v.push(q);
            } else if q.emitters.len() > 1 {
                q.emitters.remove(i);
                if i < q.scoped.len() {
                    q.scoped.remove(i);
                }
                v.push(q);
            }
        }
        if p.installer_delay > 0 {
            v.push(GPlan { installer_delay: p.installer_delay - 1, ..p.clone() });
        }
        if p.panicking_calls > 0 {
            v.push(GPlan { panicking_calls: 0, ..p.clone() });
            v.push(GPlan { panicking_calls: p.panicking_calls - 1, ..p.clone() });
        }
        for i in 0..p.scoped.len() {
            if p.scoped[i] > 0 {
                let mut q = p.clone();
                q.scoped[i] -= 1;
                v.push(q);
            }
        }
        v
    }
    fn real_components(&self) -> Vec<&'static str> {
        vec!["metrics::set_global_recorder", "metrics::with_recorder via counter!/histogram!/describe_gauge!", "the process-wide GLOBAL_RECORDER cell"]
    }
    fn stub_components(&self) -> Vec<&'static str> {
        vec!["thread scheduler (dsim)", "recorder doubles", "guarded hook __verif_reset_global_recorder puts the cell back to uninstalled between runs (one run = one process life)"]
    }
}
