//! C02 — the global recorder is installed at most once and is seen whole by everyone.
//! Cell-level scenario: a fresh `RecorderOnceCell` per run, every atomic step a sync point.

use crate::doubles::{new_log, LogRecorder, Shared};
use crate::framework::*;
use dsim::Rng;
use metrics::{KeyName, __VerifRecorderOnceCell as Cell};
use serde::{Deserialize, Serialize};
use std::sync::atomic::Ordering;
use std::sync::{Arc, Mutex};

#[derive(Clone, Debug, Serialize, Deserialize)]
pub struct Plan {
    pub installers: u32,
    pub emitters: u32,
    pub loads: u32,
}

pub struct C02Cell;

#[derive(Default)]
struct Obs {
    // (installer id, inv step, ret step, ok)
    sets: Vec<(u32, u64, u64, bool)>,
    // (tid, inv, ret, Some(recorder id) | None)
    loads: Vec<(u32, u64, u64, Option<u32>)>,
    errors: Vec<(String, String)>,
}

impl Scenario for C02Cell {
    type Plan = Plan;
    fn property(&self) -> &'static str {
        "C02"
    }
    fn name(&self) -> &'static str {
        "cell"
    }
    fn plan(&self, r: &mut Rng, _tier: Tier) -> Plan {
        Plan { installers: r.range(2, 4) as u32, emitters: r.range(0, 3) as u32, loads: r.range(1, 6) as u32 }
    }
    fn horizon(&self) -> u64 {
        40
    }
    fn execute(&self, plan: &Plan, sched: &SchedSpec) -> RunReport {
        let obs = Arc::new(Mutex::new(Obs::default()));
        let log = new_log();
        let shareds: Vec<Arc<Shared>> = (0..plan.installers).map(|_| Shared::new(log.clone())).collect();
        let p = plan.clone();
        let obs2 = obs.clone();
        let shareds2 = shareds.clone();
        let log2 = log.clone();
        let sim = simulate(sched, 20_000, move || {
            let cell: &'static Cell = Box::leak(Box::new(Cell::new()));
            let mut hs = Vec::new();
            for i in 0..p.installers {
                let obs = obs2.clone();
                let sh = shareds2[i as usize].clone();
                hs.push(dsim::spawn(&format!("installer{}", i), move || {
                    dsim::point("c02.set.begin");
                    let rec = LogRecorder::new(i, sh.clone());
                    let inv = dsim::step();
                    let res = cell.set(rec);
                    let ret = dsim::step();
                    dsim::point("c02.set.end");
                    let mut o = obs.lock().unwrap();
                    match res {
                        Ok(()) => o.sets.push((i, inv, ret, true)),
                        Err(e) => {
                            o.sets.push((i, inv, ret, false));
                            let r = e.into_inner();
                            if r.id != i || !r.intact() {
                                o.errors.push(("loser-got-wrong-recorder".into(), format!("installer {} got back recorder id {} intact={}", i, r.id, r.intact())));
                            }
                            if sh.drops.load(Ordering::SeqCst) != 0 {
                                o.errors.push(("loser-recorder-dropped-by-library".into(), format!("installer {}: drop count {} before the caller dropped it", i, sh.drops.load(Ordering::SeqCst))));
                            }
                            drop(o);
                            drop(r);
                            if sh.drops.load(Ordering::SeqCst) != 1 {
                                obs.lock().unwrap().errors.push(("loser-recorder-drop-count".into(), format!("installer {}: drop count {} after caller drop", i, sh.drops.load(Ordering::SeqCst))));
                            }
                        }
                    }
                }));
            }
            for e in 0..p.emitters {
                let obs = obs2.clone();
                let log = log2.clone();
                let loads = p.loads;
                hs.push(dsim::spawn(&format!("emitter{}", e), move || {
                    for _ in 0..loads {
                        dsim::point("c02.load.begin");
                        let inv = dsim::step();
                        let got = cell.try_load();
                        let ret = dsim::step();
                        let id = got.map(|rec| {
                            let before = log.lock().unwrap().len();
                            rec.describe_counter(KeyName::from_const_str("c02"), None, "".into());
                            let l = log.lock().unwrap();
                            if l.len() != before + 1 {
                                return u32::MAX;
                            }
                            let ev = &l[before];
                            if ev.value == "CORRUPT" {
                                u32::MAX - 1
                            } else {
                                ev.rec
                            }
                        });
                        obs.lock().unwrap().loads.push((dsim::tid(), inv, ret, id));
                    }
                }));
            }
            for h in hs {
                h.join();
            }
            // quiescent load
            let inv = dsim::step();
            let got = cell.try_load();
            let id = got.map(|rec| {
                let before = log2.lock().unwrap().len();
                rec.describe_counter(KeyName::from_const_str("c02"), None, "".into());
                let l = log2.lock().unwrap();
                l.get(before).map(|e| e.rec).unwrap_or(u32::MAX)
            });
            obs2.lock().unwrap().loads.push((0, inv, u64::MAX, id));
        });
        let mut rep = RunReport::ok(sim);
        let o = obs.lock().unwrap();
        let mut v: Option<Violation> = None;
        let sim = rep.sim.as_ref().unwrap();
        if !sim.panics.is_empty() {
            v = violation("panic", format!("{:?}", sim.panics));
        }
        if sim.end == dsim::End::Completed && v.is_none() {
            if let Some((c, d)) = o.errors.first() {
                v = violation(c, d.clone());
            }
            let winners: Vec<&(u32, u64, u64, bool)> = o.sets.iter().filter(|s| s.3).collect();
            if v.is_none() && winners.len() > 1 {
                v = violation("two-winners", format!("installers {:?} all got Ok", winners.iter().map(|w| w.0).collect::<Vec<_>>()));
            }
            if v.is_none() && winners.is_empty() {
                v = violation("no-winner", "every installer failed although the cell was fresh".into());
            }
            if v.is_none() {
                let w = winners[0];
                if shareds[w.0 as usize].drops.load(Ordering::SeqCst) != 0 {
                    v = violation("winner-dropped", format!("installed recorder {} was dropped", w.0));
                }
                for l in &o.loads {
                    if v.is_some() {
                        break;
                    }
                    match l.3 {
                        Some(id) if id != w.0 => {
                            v = violation("load-wrong-recorder", format!("load by t{} (steps {}..{}) reached recorder {:?}, winner is {}", l.0, l.1, l.2, id as i64, w.0));
                        }
                        Some(_) if l.2 < w.1 => {
                            v = violation("load-before-install", format!("load returned at step {} before the winning set was invoked at {}", l.2, w.1));
                        }
                        None if l.1 > w.2 => {
                            v = violation("load-none-after-install", format!("load invoked at step {} after winning set returned at {} saw no recorder", l.1, w.2));
                        }
                        _ => {}
                    }
                }
                // stability: once Some, always Some
                for a in &o.loads {
                    for b in &o.loads {
                        if v.is_none() && a.3.is_some() && a.2 < b.1 && b.3.is_none() {
                            v = violation("load-unstable", format!("load at {}..{} saw the recorder, later load at {}..{} saw none", a.1, a.2, b.1, b.2));
                        }
                    }
                }
                // loser drops exactly once, by the caller
                for s in o.sets.iter().filter(|s| !s.3) {
                    if v.is_none() && shareds[s.0 as usize].drops.load(Ordering::SeqCst) != 1 {
                        v = violation("loser-recorder-drop-count", format!("installer {} final drop count {}", s.0, shareds[s.0 as usize].drops.load(Ordering::SeqCst)));
                    }
                }
            }
        }
        rep.observations = format!("sets={:?} loads={:?}", o.sets, o.loads);
        rep.history_hash = crate::util::hash_str(&rep.observations);
        rep.count("sets", o.sets.len() as u64);
        rep.count("loads", o.loads.len() as u64);
        rep.count("loads_some", o.loads.iter().filter(|l| l.3.is_some()).count() as u64);
        rep.count("loads_none", o.loads.iter().filter(|l| l.3.is_none()).count() as u64);
        rep.violation = v;
        rep
    }
    fn shrink(&self, p: &Plan) -> Vec<Plan> {
        let mut v = vec![];
        if p.installers > 1 {
            v.push(Plan { installers: p.installers - 1, ..p.clone() });
        }
        if p.emitters > 0 {
            v.push(Plan { emitters: p.emitters - 1, ..p.clone() });
        }
        if p.loads > 1 {
            v.push(Plan { loads: p.loads - 1, ..p.clone() });
        }
        v
    }
    fn real_components(&self) -> Vec<&'static str> {
        vec!["metrics::recorder::cell::RecorderOnceCell::{set,try_load}", "metrics::SetRecorderError"]
    }
    fn stub_components(&self) -> Vec<&'static str> {
        vec!["thread scheduler (dsim)", "recorder doubles"]
    }
}
