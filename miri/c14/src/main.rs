//! C14 under Miri: seeded programs of construct / clone / convert / compare / hash / drop over
//! `SharedString` and `Key` labels (the public faces of the copy-on-write type), with values handed
//! to, cloned on and dropped on other threads. Miri is the memory oracle (use-after-free, double
//! free, layout-mismatched deallocation, leaks, data races); the program itself checks content
//! against a model and Arc strong counts after every step. One execution = programs
//! `first..first+count` (argv), under the interpreter seed chosen by -Zmiri-many-seeds.

use metrics::{Key, Label, SharedString};

// The copy-on-write type itself (private in the crate): compiled into this program from the
// shipped source file so that Arc-backed *slices* (which no public constructor of Key builds, but
// which the type supports and the property quantifies over) are exercised too.
#[path = "/repo/metrics/src/cow.rs"]
#[allow(dead_code, unused_imports)]
mod cow;
use std::collections::hash_map::DefaultHasher;
use std::hash::{Hash, Hasher};
use std::sync::mpsc;
use std::sync::Arc;

struct Rng(u64);
impl Rng {
    fn next(&mut self) -> u64 {
        self.0 = self.0.wrapping_add(0x9E3779B97F4A7C15);
        let mut z = self.0;
        z = (z ^ (z >> 30)).wrapping_mul(0xBF58476D1CE4E5B9);
        z = (z ^ (z >> 27)).wrapping_mul(0x94D049BB133111EB);
        z ^ (z >> 31)
    }
    fn below(&mut self, n: u64) -> u64 {
        ((self.next() as u128 * n as u128) >> 64) as u64
    }
}

const STATICS: [&str; 4] = ["", "a", "static-text", "ünï"];

fn hash_of<T: Hash>(t: &T) -> u64 {
    let mut h = DefaultHasher::new();
    t.hash(&mut h);
    h.finish()
}

/// A live value with its model.
enum Val {
    S { v: SharedString, model: String, arc: Option<Arc<str>> },
    K { v: Key, name: String, labels: Vec<(String, String)> },
}

fn check(val: &Val) {
    match val {
        Val::S { v, model, arc } => {
            assert_eq!(&**v, model.as_str(), "content differs from model");
            assert_eq!(v.len(), model.len());
            assert_eq!(hash_of(v), hash_of(&model.as_str()), "hash differs from the str hash");
            assert!(*v == SharedString::from(model.clone()));
            if let Some(a) = arc {
                assert!(Arc::strong_count(a) >= 2, "shared value does not hold a strong reference");
            }
        }
        Val::K { v, name, labels } => {
            assert_eq!(v.name(), name);
            let got: Vec<(String, String)> = v.labels().map(|l| (l.key().to_string(), l.value().to_string())).collect();
            assert_eq!(&got, labels, "labels differ from model");
        }
    }
}

fn mk_string(r: &mut Rng) -> String {
    let len = r.below(6) as usize;
    let cap_extra = [0usize, 0, 1, 7][r.below(4) as usize];
    let mut s = String::with_capacity(len + cap_extra);
    for i in 0..len {
        s.push((b'a' + ((i as u64 + r.below(3)) % 26) as u8) as char);
    }
    if len == 0 && r.below(2) == 0 {
        return String::new(); // capacity 0
    }
    s
}

/// Run-time built label tables handed to `Key::from_static_labels` (borrowed, with elements that
/// own heap data or Arcs). Kept reachable from a static so that they are not reported as leaks.
static LEAKED: std::sync::Mutex<Vec<&'static [Label]>> = std::sync::Mutex::new(Vec::new());

fn construct(r: &mut Rng) -> Val {
    match r.below(9) {
        8 => {
            // borrowed label slice whose elements have destructors: converting it to an owned
            // vector (into_parts, with_extra_labels) must clone element by element
            let n = 1 + r.below(3) as usize;
            let a: Arc<str> = Arc::from("leaked-shared");
            let values: Vec<String> = (0..n).map(|_| mk_string(r)).collect();
            let mut lv: Vec<Label> = vec![];
            let mut labels: Vec<(String, String)> = vec![];
            for (i, v) in values.into_iter().enumerate() {
                labels.push((format!("b{}", i), v.clone()));
                lv.push(Label::new(format!("b{}", i), v));
            }
            labels.push(("bs".into(), "leaked-shared".into()));
            lv.push(Label::new("bs", SharedString::from_shared(a)));
            let table: &'static [Label] = Box::leak(lv.into_boxed_slice());
            LEAKED.lock().unwrap().push(table);
            let v = Key::from_static_labels("borrowed_table", table);
            Val::K { v, name: "borrowed_table".into(), labels }
        }
        0 => {
            let s = STATICS[r.below(4) as usize];
            Val::S { v: SharedString::const_str(s), model: s.to_string(), arc: None }
        }
        1 => {
            let s = STATICS[r.below(4) as usize];
            Val::S { v: SharedString::from_borrowed(s), model: s.to_string(), arc: None }
        }
        2 => {
            // the String itself is handed over (a clone would lose its spare capacity)
            let s = mk_string(r);
            let model = s.clone();
            Val::S { v: SharedString::from(s), model, arc: None }
        }
        3 => {
            let s = mk_string(r);
            let a: Arc<str> = Arc::from(s.as_str());
            Val::S { v: SharedString::from_shared(a.clone()), model: s, arc: Some(a) }
        }
        4 => {
            let s = mk_string(r);
            let c: std::borrow::Cow<'static, str> = if r.below(2) == 0 { std::borrow::Cow::Owned(s) } else { std::borrow::Cow::Borrowed("borrowed-std") };
            let model = c.to_string();
            Val::S { v: SharedString::from(c), model, arc: None }
        }
        5 => {
            // key with owned labels (elements have destructors)
            let n = r.below(4) as usize;
            let values: Vec<String> = (0..n).map(|_| mk_string(r)).collect();
            let labels: Vec<(String, String)> = values.iter().enumerate().map(|(i, v)| (format!("k{}", i), v.clone())).collect();
            // label vector with spare capacity (also when it stays empty); values moved in, not cloned
            let mut lv: Vec<Label> = Vec::with_capacity(n + [0usize, 0, 2, 5][r.below(4) as usize]);
            for (i, v) in values.into_iter().enumerate() {
                lv.push(Label::new(format!("k{}", i), v));
            }
            let v = Key::from_parts(mk_string(r) + "n", lv);
            let name = v.name().to_string();
            Val::K { v, name, labels }
        }
        6 => {
            static L: [Label; 2] = [Label::from_static_parts("sa", "1"), Label::from_static_parts("sb", "2")];
            let v = Key::from_static_labels("static_labels", &L);
            Val::K { v, name: "static_labels".into(), labels: vec![("sa".into(), "1".into()), ("sb".into(), "2".into())] }
        }
        _ => {
            let a: Arc<str> = Arc::from("shared-label-value");
            let v = Key::from_parts("arc_key", vec![Label::new(SharedString::from_shared(a.clone()), SharedString::from_shared(a.clone()))]);
            drop(a);
            Val::K { v, name: "arc_key".into(), labels: vec![("shared-label-value".into(), "shared-label-value".into())] }
        }
    }
}

static HANDOVERS: std::sync::atomic::AtomicU64 = std::sync::atomic::AtomicU64::new(0);
/// value of HANDOVERS when the current program began
static PROGRAM_START: std::sync::atomic::AtomicU64 = std::sync::atomic::AtomicU64::new(0);

fn step(r: &mut Rng, live: &mut Vec<Val>, tx: &mpsc::Sender<Val>, wide: bool) {
    if live.is_empty() || (live.len() < 6 && r.below(3) == 0) {
        live.push(construct(r));
        check(live.last().unwrap());
        return;
    }
    let i = r.below(live.len() as u64) as usize;
    // (the operations 9 and 10 exist only in the "wide" variant of a program, so that the plain
    // variant stays the program it was before they were added)
    match if wide { r.below(11) } else { r.below(9) } {
        9 => {
            // clone_from: the destination's previous content (an owned buffer, a shared reference)
            // must be released, the new content is the source's
            let j = r.below(live.len() as u64) as usize;
            if i != j {
                let (lo, hi) = (i.min(j), i.max(j));
                let (x, y) = live.split_at_mut(hi);
                let (dst, src) = if i < j { (&mut x[lo], &y[0]) } else { (&mut y[0], &x[lo]) };
                if let (Val::S { v: dv, model: dm, arc: da }, Val::S { v: sv, model: sm, arc: sa }) = (dst, src) {
                    let before = da.as_ref().map(|a| Arc::strong_count(a));
                    dv.clone_from(sv);
                    if let (Some(a), Some(b)) = (da.as_ref(), before) {
                        let same = sa.as_ref().map_or(false, |s| Arc::ptr_eq(s, a));
                        if !same && HANDOVERS.load(std::sync::atomic::Ordering::Relaxed) == PROGRAM_START.load(std::sync::atomic::Ordering::Relaxed) {
                            assert_eq!(Arc::strong_count(a), b - 1, "clone_from over a shared value must give its reference back");
                        }
                    }
                    *dm = sm.clone();
                    *da = sa.clone();
                }
                check(&live[i]);
            }
        }
        10 => {
            // labels built from a user collection whose conversion panics part-way (caught): the
            // labels converted before the panic are released (Miri reports what is not)
            struct Pair(String, Arc<str>, bool);
            impl<'a> From<&'a Pair> for Label {
                fn from(p: &'a Pair) -> Label {
                    if p.2 {
                        panic!("label source is poisoned");
                    }
                    Label::new(p.0.clone(), Arc::clone(&p.1))
                }
            }
            let n = 2 + r.below(4) as usize;
            let boom = r.below(n as u64 + 2) as usize; // >= n: nobody panics
            let shared: Arc<str> = Arc::from(mk_string(r).as_str());
            let src: Vec<Pair> = (0..n).map(|k| Pair(mk_string(r), shared.clone(), k == boom)).collect();
            let base = Arc::strong_count(&shared);
            let res = std::panic::catch_unwind(std::panic::AssertUnwindSafe(|| Key::from_parts("from_pairs", &src)));
            match res {
                Ok(k) => {
                    assert!(boom >= n);
                    assert_eq!(k.labels().count(), n);
                    drop(k);
                }
                Err(_) => assert!(boom < n),
            }
            assert_eq!(Arc::strong_count(&shared), base, "labels converted before a panicking conversion were not released");
        }
        0 | 1 => {
            // clone
            let c = match &live[i] {
                Val::S { v, model, arc } => Val::S { v: v.clone(), model: model.clone(), arc: arc.clone() },
                Val::K { v, name, labels } => Val::K { v: v.clone(), name: name.clone(), labels: labels.clone() },
            };
            check(&c);
            live.push(c);
        }
        2 => {
            // into_owned / into_parts
            match live.swap_remove(i) {
                Val::S { v, model, arc } => {
                    let before = arc.as_ref().map(|a| Arc::strong_count(a));
                    let s: String = v.into_owned();
                    assert_eq!(s, model);
                    // (exact only while the other thread holds nothing of this program: once a value
                    // has been handed over, its clones there come and go concurrently; the closing
                    // check of the program covers those)
                    if let (Some(a), Some(b)) = (arc.as_ref(), before) {
                        if HANDOVERS.load(std::sync::atomic::Ordering::Relaxed) == PROGRAM_START.load(std::sync::atomic::Ordering::Relaxed) {
                            assert_eq!(Arc::strong_count(a), b - 1, "into_owned on a shared value must give its reference back");
                        }
                    }
                    live.push(Val::S { v: SharedString::from_owned(s), model, arc: None });
                }
                Val::K { v, name, labels } => {
                    let (n, l) = v.into_parts();
                    assert_eq!(n.as_str(), name);
                    let got: Vec<(String, String)> = l.iter().map(|x| (x.key().to_string(), x.value().to_string())).collect();
                    assert_eq!(got, labels);
                    live.push(Val::K { v: Key::from_parts(n, l), name, labels });
                }
            }
        }
        3 => {
            // (the From<Cow<T>> for std::borrow::Cow<T> conversion requires T: Sized, so it does not
            // exist for str / slices; the std-Cow direction is covered by construction only)
            if let Val::S { v, model, .. } = &live[i] {
                let d = format!("{}{:?}", v, v);
                assert!(d.starts_with(model.as_str()));
            }
        }
        4 => {
            // with_extra_labels
            if let Val::K { v, name, labels } = &live[i] {
                let extra = mk_string(r);
                let nv = v.with_extra_labels(vec![Label::new("extra", extra.clone())]);
                let mut nl = labels.clone();
                nl.push(("extra".into(), extra));
                let k = Val::K { v: nv, name: name.clone(), labels: nl };
                check(&k);
                live.push(k);
            }
        }
        5 => {
            // compare / hash against every other live value of the same kind
            for j in 0..live.len() {
                match (&live[i], &live[j]) {
                    (Val::S { v: a, model: ma, .. }, Val::S { v: b, model: mb, .. }) => {
                        assert_eq!(a == b, ma == mb);
                        assert_eq!(a.cmp(b), ma.cmp(mb));
                    }
                    (Val::K { v: a, .. }, Val::K { v: b, .. }) => {
                        if a == b {
                            assert_eq!(a.get_hash(), b.get_hash());
                        }
                    }
                    _ => {}
                }
            }
        }
        6 | 7 => {
            // hand over to the other thread (it checks, maybe clones, and drops there)
            let v = live.swap_remove(i);
            HANDOVERS.fetch_add(1, std::sync::atomic::Ordering::Relaxed);
            tx.send(v).unwrap();
        }
        _ => {
            let v = live.swap_remove(i);
            check(&v);
            drop(v);
        }
    }
}

fn program(seed: u64, wide: bool) {
    PROGRAM_START.store(HANDOVERS.load(std::sync::atomic::Ordering::Relaxed), std::sync::atomic::Ordering::Relaxed);
    let mut r = Rng(seed.wrapping_mul(0xA24BAED4963EE407) ^ 0x5151);
    let (tx, rx) = mpsc::channel::<Val>();
    let consumer = std::thread::spawn(move || {
        let mut kept = vec![];
        let mut n = 0u64;
        for v in rx {
            check(&v);
            n += 1;
            if n % 3 == 0 {
                let c = match &v {
                    Val::S { v, model, arc } => Val::S { v: v.clone(), model: model.clone(), arc: arc.clone() },
                    Val::K { v, name, labels } => Val::K { v: v.clone(), name: name.clone(), labels: labels.clone() },
                };
                check(&c);
                kept.push(c);
            }
            drop(v);
        }
        for k in &kept {
            check(k);
        }
    });
    let mut live = vec![];
    let steps = 6 + r.below(14);
    for _ in 0..steps {
        step(&mut r, &mut live, &tx, wide);
        for v in &live {
            check(v);
        }
    }
    drop(tx);
    consumer.join().unwrap();
    // Arc-backed values: once everything is dropped the harness holds the only reference
    let arcs: Vec<Arc<str>> = live.iter().filter_map(|v| if let Val::S { arc: Some(a), .. } = v { Some(a.clone()) } else { None }).collect();
    drop(live);
    // (several live values may have shared one Arc: the harness then holds that many handles)
    for a in &arcs {
        let mine = arcs.iter().filter(|b| Arc::ptr_eq(a, b)).count();
        assert_eq!(Arc::strong_count(a), mine, "an Arc reference taken by a shared value was not given back");
    }
}

// ---------------------------------------------------------------------------------------------
// Raw programs over cow::Cow<[Elem]>: elements with destructors (counted) and a Clone that can be
// made to panic; shared slices with outstanding Weak references upgraded on another thread.

static CREATED: std::sync::atomic::AtomicU64 = std::sync::atomic::AtomicU64::new(0);
static DROPPED: std::sync::atomic::AtomicU64 = std::sync::atomic::AtomicU64::new(0);
static CLONE_BOMB: std::sync::atomic::AtomicI64 = std::sync::atomic::AtomicI64::new(-1);

#[derive(Debug, PartialEq, Eq, PartialOrd, Ord, Hash)]
struct Elem(Box<u32>);
impl Elem {
    fn new(v: u32) -> Elem {
        CREATED.fetch_add(1, std::sync::atomic::Ordering::SeqCst);
        Elem(Box::new(v))
    }
}
impl Clone for Elem {
    fn clone(&self) -> Elem {
        if CLONE_BOMB.fetch_sub(1, std::sync::atomic::Ordering::SeqCst) == 0 {
            std::panic::resume_unwind(Box::new("clone bomb"));
        }
        Elem::new(*self.0)
    }
}
impl Drop for Elem {
    fn drop(&mut self) {
        DROPPED.fetch_add(1, std::sync::atomic::Ordering::SeqCst);
    }
}

fn raw_program(seed: u64) {
    use std::sync::atomic::Ordering::SeqCst;
    let mut r = Rng(seed.wrapping_mul(0xD1B54A32D192ED03) ^ 0x7a77);
    let (c0, d0) = (CREATED.load(SeqCst), DROPPED.load(SeqCst));
    CLONE_BOMB.store(-1, SeqCst);
    let n = 1 + r.below(4) as u32;
    // (the four kinds of raw program take turns)
    match (seed / 5) % 4 {
        0 => for _round in 0..8 {
            // last strong owner + an outstanding Weak upgraded on another thread while the value is
            // converted to an owned vector (many rounds: the window is a handful of basic blocks)
            let n = n * 3; // a long conversion: the window between "am I the last owner" and the release
            let a: Arc<[Elem]> = (0..n).map(Elem::new).collect::<Vec<_>>().into();
            let w = Arc::downgrade(&a);
            let c: cow::Cow<'static, [Elem]> = cow::Cow::from_shared(a);
            let t = std::thread::spawn(move || {
                let mut got = 0;
                // a tight loop of short-lived upgrades: whenever the converting thread is pre-empted
                // inside its window, this one is somewhere between an upgrade and its drop
                for _ in 0..120 {
                    if let Some(s) = w.upgrade() {
                        got += s.iter().map(|e| *e.0 as usize).sum::<usize>();
                        drop(s);
                    } else {
                        break;
                    }
                }
                got
            });
            // let the other thread get going first
            std::thread::yield_now();
            let v: Vec<Elem> = c.into_owned();
            assert_eq!(v.len(), n as usize);
            assert!(v.iter().enumerate().all(|(i, e)| *e.0 == i as u32));
            let got = t.join().unwrap();
            let _ = got;
            drop(v);
        },
        1 => {
            // a Clone that panics part-way through into_owned of a shared slice that has other
            // owners: the consumed value must still give its reference back
            let a: Arc<[Elem]> = (0..n + 1).map(Elem::new).collect::<Vec<_>>().into();
            let c: cow::Cow<'static, [Elem]> = cow::Cow::from_shared(a.clone());
            assert_eq!(Arc::strong_count(&a), 2);
            CLONE_BOMB.store(r.below(n as u64 + 1) as i64, SeqCst);
            let res = std::panic::catch_unwind(std::panic::AssertUnwindSafe(|| c.into_owned()));
            CLONE_BOMB.store(-1, SeqCst);
            assert!(res.is_err());
            assert_eq!(Arc::strong_count(&a), 1, "the consumed shared value kept its reference after a panicking element clone");
            drop(a);
        }
        2 => {
            // the same with the consumed value holding the last reference
            let a: Arc<[Elem]> = (0..n + 1).map(Elem::new).collect::<Vec<_>>().into();
            let w = Arc::downgrade(&a);
            let c: cow::Cow<'static, [Elem]> = cow::Cow::from_shared(a);
            CLONE_BOMB.store(r.below(n as u64 + 1) as i64, SeqCst);
            let res = std::panic::catch_unwind(std::panic::AssertUnwindSafe(|| c.into_owned()));
            CLONE_BOMB.store(-1, SeqCst);
            if res.is_err() {
                assert!(w.upgrade().is_none(), "the shared slice outlived its last owner");
            }
        }
        _ => {
            // owned / shared / borrowed slices cloned and dropped on two threads
            let owned: cow::Cow<'static, [Elem]> = cow::Cow::from_owned((0..n).map(Elem::new).collect());
            let shared: cow::Cow<'static, [Elem]> = cow::Cow::from_shared((0..n).map(Elem::new).collect::<Vec<_>>().into());
            let (o2, s2) = (owned.clone(), shared.clone());
            let t = std::thread::spawn(move || {
                assert!(o2.iter().enumerate().all(|(i, e)| *e.0 == i as u32));
                let v = s2.into_owned();
                drop(o2);
                v.len()
            });
            assert!(owned == shared);
            drop(owned);
            let _ = t.join().unwrap();
            drop(shared);
        }
    }
    let (c1, d1) = (CREATED.load(SeqCst), DROPPED.load(SeqCst));
    assert_eq!(c1 - c0, d1 - d0, "elements created and destructors run differ");
}

fn main() {
    let args: Vec<String> = std::env::args().collect();
    let first: u64 = args.get(1).and_then(|s| s.parse().ok()).unwrap_or(0);
    let count: u64 = args.get(2).and_then(|s| s.parse().ok()).unwrap_or(4);
    for s in first..first + count {
        let before = HANDOVERS.load(std::sync::atomic::Ordering::Relaxed);
        if s % 5 == 4 {
            raw_program(s);
            HANDOVERS.fetch_add(1, std::sync::atomic::Ordering::Relaxed);
        } else {
            program(s, false);
            program(s, true);
        }
        println!("prog {} handovers={}", s, HANDOVERS.load(std::sync::atomic::Ordering::Relaxed) - before);
    }
    println!("c14-miri ok programs={}..{}", first, first + count);
}
