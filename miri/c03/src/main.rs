//! C03 under Miri: several threads race the first get_hash() of lazily hashed shared keys,
//! clone them mid-race and hash the clones; every value must equal the hash of an independently
//! built, eagerly hashed equal key. Weak-memory emulation makes a wrong publication order visible.

use metrics::{Key, Label};
use std::sync::Arc;

static L2: [Label; 2] = [Label::from_static_parts("b", "2"), Label::from_static_parts("a", "1")];
static L3: [Label; 3] = [Label::from_static_parts("c", "3"), Label::from_static_parts("a", "1"), Label::from_static_parts("b", "2")];

fn main() {
    let args: Vec<String> = std::env::args().collect();
    let first: u64 = args.get(1).and_then(|s| s.parse().ok()).unwrap_or(0);
    let count: u64 = args.get(2).and_then(|s| s.parse().ok()).unwrap_or(1);
    for v in first..first + count {
        let (key, reference): (Key, Key) = match v % 4 {
            0 => (Key::from_static_name("lazy_name"), Key::from_name(String::from("lazy_name"))),
            1 => (Key::from_static_parts("lazy2", &L2), Key::from_parts(String::from("lazy2"), vec![Label::new("a", "1"), Label::new("b", "2")])),
            2 => (Key::from_static_labels(String::from("lazy3"), &L3), Key::from_parts("lazy3", vec![Label::new("a", "1"), Label::new("b", "2"), Label::new("c", "3")])),
            _ => (Key::from_static_parts("lazy2", &L2).clone(), Key::from_parts("lazy2", vec![Label::new("b", "2"), Label::new("a", "1")])),
        };
        assert!(key == reference);
        let want = reference.get_hash();
        let key = Arc::new(key);
        let threads = 2 + (v / 4 % 2);
        let mut hs = vec![];
        for t in 0..threads {
            let key = key.clone();
            hs.push(std::thread::spawn(move || {
                for i in 0..2 {
                    if (t + i) % 2 == 0 {
                        assert_eq!(key.get_hash(), want, "get_hash() unstable under a racing first use");
                    } else {
                        let c = (*key).clone();
                        assert_eq!(c.get_hash(), want, "clone taken mid-race hashes differently");
                        assert!(c == *key);
                    }
                }
            }));
        }
        for h in hs {
            h.join().unwrap();
        }
        assert_eq!(key.get_hash(), want);
        println!("prog {} handovers={}", v, threads);
    }
    println!("c03-miri ok");
}
