#![allow(dead_code, unused_imports, clippy::all)]
#[path = "/repo/metrics-util/src/layers/mod.rs"]
pub mod layers;
