//! C17 under Miri: several threads, each inside its own span, emit through ONE shared
//! `TracingContextLayer` (allow-list / include-all / custom filter) at the same time. Every key that
//! reaches the inner recorder must carry exactly the admitted fields of the emitting thread's own
//! span ("does not depend on other threads' spans", "the label filter is honoured").
//!
//! Why Miri next to dsim: dsim interleaves threads at the synchronisation points the guarded shim
//! knows about; state shared between threads through plain std atomics or cells inside the layer or
//! a filter is invisible to it. Miri's seeded scheduler pre-empts at basic-block granularity and
//! reports data races as such. One execution = one (program, interpreter seed) pair.

use metrics::{Counter, Gauge, Histogram, Key, KeyName, Label, Level, Metadata, Recorder, SharedString, Unit};
use metrics_tracing_context::{LabelFilter, MetricsLayer, TracingContextLayer};
use metrics_util::layers::Layer;
use std::sync::{Arc, Mutex};
use tracing::dispatcher::Dispatch;
use tracing_subscriber::layer::SubscriberExt;

static MD: Metadata<'static> = Metadata::new("c17", Level::INFO, None);

/// inner recorder: remembers (emitting thread, key labels) per call
#[derive(Clone, Default)]
struct Inner {
    seen: Arc<Mutex<Vec<(usize, String, Vec<(String, String)>)>>>,
}
thread_local! {
    static ME: std::cell::Cell<usize> = std::cell::Cell::new(usize::MAX);
}
impl Inner {
    fn note(&self, key: &Key) {
        let labels = key.labels().map(|l| (l.key().to_string(), l.value().to_string())).collect();
        self.seen.lock().unwrap().push((ME.with(|m| m.get()), key.name().to_string(), labels));
    }
}
impl Recorder for Inner {
    fn describe_counter(&self, _: KeyName, _: Option<Unit>, _: SharedString) {}
    fn describe_gauge(&self, _: KeyName, _: Option<Unit>, _: SharedString) {}
    fn describe_histogram(&self, _: KeyName, _: Option<Unit>, _: SharedString) {}
    fn register_counter(&self, key: &Key, _: &Metadata<'_>) -> Counter {
        self.note(key);
        Counter::noop()
    }
    fn register_gauge(&self, key: &Key, _: &Metadata<'_>) -> Gauge {
        self.note(key);
        Gauge::noop()
    }
    fn register_histogram(&self, key: &Key, _: &Metadata<'_>) -> Histogram {
        self.note(key);
        Histogram::noop()
    }
}

/// custom filter: drops labels whose value starts with 'x'
#[derive(Clone)]
struct NoX;
impl LabelFilter for NoX {
    fn should_include_label(&self, _name: &KeyName, label: &Label) -> bool {
        !label.value().starts_with('x')
    }
}

fn admitted(filter: u64, k: &str, v: &str) -> bool {
    match filter {
        0 => true,
        1 => k == "service" || k == "region",
        _ => !v.starts_with('x'),
    }
}

fn program(p: u64) -> usize {
    let filter = p % 3;
    let nthreads = 2 + (p / 3) % 2;
    let emits = 2 + (p / 6) % 3;
    let inner = Inner::default();
    let rec: Arc<dyn Recorder + Send + Sync> = match filter {
        0 => Arc::new(TracingContextLayer::all().layer(inner.clone())),
        1 => Arc::new(TracingContextLayer::only_allow(["service", "region"]).layer(inner.clone())),
        _ => Arc::new(TracingContextLayer::new(NoX).layer(inner.clone())),
    };
    let dispatch = Dispatch::new(tracing_subscriber::registry().with(MetricsLayer::new()));
    let mut hs = vec![];
    for t in 0..nthreads as usize {
        let (rec, dispatch) = (rec.clone(), dispatch.clone());
        hs.push(std::thread::spawn(move || {
            ME.with(|m| m.set(t));
            tracing::dispatcher::with_default(&dispatch, || {
                // every thread's span has its own values; `password` is never on the allow-list,
                // the x-prefixed value is dropped by the custom filter
                let service = format!("svc{}", t);
                let password = format!("x-secret{}", t);
                let region = format!("r{}", t);
                let span = tracing::info_span!("req", service = service.as_str(), password = password.as_str(), region = region.as_str(), thread = t as u64);
                let _e = span.enter();
                for i in 0..emits {
                    let key = Key::from_parts("m", vec![Label::new("own", format!("o{}", i))]);
                    match i % 3 {
                        0 => drop(rec.register_counter(&key, &MD)),
                        1 => drop(rec.register_gauge(&key, &MD)),
                        _ => drop(rec.register_histogram(&key, &MD)),
                    }
                }
            });
        }));
    }
    for h in hs {
        h.join().unwrap();
    }
    let seen = inner.seen.lock().unwrap();
    assert_eq!(seen.len(), (nthreads * emits) as usize, "every emission reaches the inner recorder exactly once");
    for (t, name, labels) in seen.iter() {
        assert_eq!(name, "m");
        let own: Vec<&(String, String)> = labels.iter().filter(|(k, _)| k == "own").collect();
        assert_eq!(own.len(), 1, "the metric's own label survives exactly once: {:?}", labels);
        let mut got: Vec<(String, String)> = labels.iter().filter(|(k, _)| k != "own").cloned().collect();
        got.sort();
        let fields = [("service", format!("svc{}", t)), ("password", format!("x-secret{}", t)), ("region", format!("r{}", t)), ("thread", t.to_string())];
        let mut want: Vec<(String, String)> = fields.iter().filter(|(k, v)| admitted(filter, k, v)).map(|(k, v)| (k.to_string(), v.clone())).collect();
        want.sort();
        assert_eq!(got, want, "thread {} (filter {}): key carries span labels {:?}, its own span admits {:?}", t, filter, got, want);
    }
    seen.len()
}

fn main() {
    let args: Vec<String> = std::env::args().collect();
    let first: u64 = args.get(1).and_then(|s| s.parse().ok()).unwrap_or(0);
    let count: u64 = args.get(2).and_then(|s| s.parse().ok()).unwrap_or(0);
    for p in first..first + count {
        let n = program(p);
        println!("prog {} handovers={}", p, n);
    }
}
