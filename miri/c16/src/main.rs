//! C16 under Miri: sequential push/drain cycles (exact) and pushers racing a drainer (memory
//! safety only: the concurrent value semantics are a recorded known finding).

use mu_shadow::reservoir::AtomicSamplingReservoir;
use std::sync::Arc;

fn main() {
    let args: Vec<String> = std::env::args().collect();
    let first: u64 = args.get(1).and_then(|s| s.parse().ok()).unwrap_or(0);
    let count: u64 = args.get(2).and_then(|s| s.parse().ok()).unwrap_or(1);
    for v in first..first + count {
        let cap = [0usize, 1, 2, 3][(v % 4) as usize];
        let r = Arc::new(AtomicSamplingReservoir::new(cap));
        // sequential cycles are exact
        for n in [0usize, cap, cap + 2] {
            for i in 0..n {
                r.push((i + 1) as f64);
            }
            let mut got = vec![];
            let mut rate = 0.0;
            r.consume(|d| {
                rate = d.sample_rate();
                got.extend(d);
            });
            assert_eq!(got.len(), n.min(cap));
            let want_rate = if n == 0 { 1.0 } else { got.len() as f64 / n as f64 };
            assert!((rate - want_rate).abs() < 1e-12, "sample rate {} expected {}", rate, want_rate);
            for g in &got {
                assert!(*g >= 1.0 && *g <= n as f64, "foreign value {}", g);
            }
        }
        // racing phase: no panic, never more than capacity
        let mut hs = vec![];
        for t in 0..2u64 {
            let r = r.clone();
            hs.push(std::thread::spawn(move || {
                for i in 0..3u64 {
                    r.push((100 * (t + 1) + i) as f64);
                }
            }));
        }
        {
            let r = r.clone();
            hs.push(std::thread::spawn(move || {
                for _ in 0..2 {
                    let mut n = 0usize;
                    r.consume(|d| n = d.count());
                    assert!(n <= cap);
                }
            }));
        }
        for h in hs {
            h.join().unwrap();
        }
        println!("prog {} handovers=3", v);
    }
    println!("c16-miri ok");
}
