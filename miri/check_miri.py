#!/usr/bin/env python3
"""Miri as a seeded interpreter (DESIGN.md 3.7): runs the C14 programs under
`cargo +nightly miri run -Zmiri-many-seeds`, one interpreter seed = one repeatable execution.

  check_miri.py C14 [--tier quick|thorough]      explore
  check_miri.py C14 --replay <file>              re-run one (program, miri seed) pair
Exit 0 held / 1 VIOLATION line / 2 harness error. Writes /verif/evidence/C14.json.
"""
import json, os, re, subprocess, sys, time

V = os.path.dirname(os.path.dirname(os.path.abspath(__file__)))
ENV = dict(os.environ, CARGO_NET_OFFLINE="true")
# per property: crate, extra interpreter flags, (programs, seeds, batch) for quick / thorough, what runs
TABLE = {
    # (every program number runs a plain and a "wide" variant, see miri/c14/src/main.rs)
    "C14": dict(crate="c14", flags="", quick=(48, 4, 6), thorough=(360, 12, 8), budget_quick=300),
    "C02": dict(crate="c02", flags="", quick=(6, 8, 1), thorough=(6, 64, 1)),
    "C03": dict(crate="c03", flags="", quick=(8, 8, 4), thorough=(8, 64, 4)),
    # crossbeam-epoch: its intrusive list needs Tree Borrows; garbage still awaiting an epoch at exit is not a leak
    "C05": dict(crate="c05", flags=" -Zmiri-tree-borrows -Zmiri-ignore-leaks", quick=(16, 4, 4), thorough=(16, 48, 4)),
    "C16": dict(crate="c16", flags="", quick=(4, 8, 2), thorough=(4, 64, 2)),
    "C20": dict(crate="c20", flags="", quick=(4, 8, 1), thorough=(4, 64, 1)),
    "C17": dict(crate="c17", flags="", quick=(6, 8, 3), thorough=(18, 32, 3)),
}
CRATE = None
BASEFLAGS = "-Zmiri-preemption-rate=0.1"


def run(first, count, seeds, single_seed=None, timeout=3000):
    flags = BASEFLAGS + (f" -Zmiri-seed={single_seed}" if single_seed is not None else f" -Zmiri-many-seeds={seeds[0]}..{seeds[1]}")
    env = dict(ENV, MIRIFLAGS=flags)
    p = subprocess.run(["cargo", "+nightly", "miri", "run", "--offline", "--", str(first), str(count)], cwd=CRATE, env=env, capture_output=True, text=True, timeout=timeout)
    return p.returncode, p.stdout, p.stderr, flags


def main():
    args = sys.argv[1:]
    global CRATE, BASEFLAGS
    prop = args[0]
    assert prop in TABLE, prop
    CRATE = os.path.join(V, "miri", TABLE[prop]["crate"])
    BASEFLAGS = BASEFLAGS + TABLE[prop]["flags"]
    append = "--append" in args
    tier = os.environ.get("VERIF_TIER", "quick")
    replay = None
    i = 1
    while i < len(args):
        if args[i] == "--tier":
            tier = args[i + 1]; i += 1
        elif args[i] == "--replay":
            replay = args[i + 1]; i += 1
        i += 1
    seed = int(os.environ.get("VERIF_SEED", "1"))
    t0 = time.time()
    if replay:
        r = json.load(open(replay))
        rc, out, err, flags = run(r["program"], 1, None, single_seed=r["miri_seed"])
        if rc != 0:
            print(err[-3000:], file=sys.stderr)
            print(f"VIOLATION property={prop} replay={replay}")
            sys.exit(1)
        print(f"replay of {replay} no longer violates {prop}")
        sys.exit(0)
    nprog, nseeds, batch = TABLE[prop]["quick" if tier == "quick" else "thorough"]
    budget = float(os.environ.get("VERIF_MIRI_BUDGET_S", str(TABLE[prop].get("budget_quick", 120)) if tier == "quick" else "600"))
    # C14's programs are generated from the program number; the other crates enumerate a few fixed variants
    first = seed * 1000 if prop == "C14" else 0
    execs = 0
    progs_done = 0
    handovers = {}
    samples = []
    violation = None
    # build once (not counted against the budget)
    b = subprocess.run(["cargo", "+nightly", "miri", "run", "--offline", "--", "0", "0"], cwd=CRATE, env=dict(ENV, MIRIFLAGS=BASEFLAGS), capture_output=True, text=True)
    if b.returncode != 0 and not any(m in b.stderr for m in ("Undefined Behavior", "panicked at", "memory leaked", "Data race", "deadlock")):
        print("HARNESS-ERROR: Miri build failed\n" + b.stderr[-3000:], file=sys.stderr)
        sys.exit(2)
    # (a failure with one of those markers is the interpreted program failing, not the build: the
    # exploration below pins it to a (program, interpreter seed) pair)
    p = first
    while p < first + nprog and time.time() - t0 < budget:
        rc, out, err, flags = run(p, batch, (0, nseeds))
        for m in re.finditer(r"prog (\d+) handovers=(\d+)", out):
            handovers[int(m.group(1))] = int(m.group(2))
        if rc != 0:
            # pinpoint (program, miri seed)
            found = None
            for q in range(p, p + batch):
                for s in range(nseeds):
                    rc2, out2, err2, flags2 = run(q, 1, None, single_seed=s)
                    if rc2 != 0:
                        found = (q, s, err2, flags2)
                        break
                if found:
                    break
            if not found:
                print("HARNESS-ERROR: a Miri batch failed but no single (program, seed) pair reproduces it\n" + err[-2000:], file=sys.stderr)
                sys.exit(2)
            q, s, e, fl = found
            msg = "\n".join(l for l in e.splitlines() if l.startswith("error") or "panicked" in l or "Undefined Behavior" in l or "leaked" in l)[:1500]
            os.makedirs(os.path.join(V, "replays"), exist_ok=True)
            path = os.path.join(V, "replays", f"{prop}-miri-{seed}-{q}-{s}.json")
            json.dump({"property": prop, "scenario": "miri", "engine": "miri", "verif_seed": seed, "program": q, "miri_seed": s, "miriflags": fl,
                       "violation": {"class": "miri-error", "detail": msg}, "repo_head": subprocess.run(["git", "-C", "/repo", "rev-parse", "HEAD"], capture_output=True, text=True).stdout.strip(), "hooks": "none (guard off: the shipped token stream)"}, open(path, "w"), indent=1)
            print(msg, file=sys.stderr)
            violation = path
            execs += 1
            break
        execs += batch * nseeds
        progs_done += batch
        if len(samples) < 3:
            samples.append({"programs": [p, p + batch], "miri_seeds": [0, nseeds], "stdout_tail": out.strip().splitlines()[-2:]})
        p += batch
    wall = time.time() - t0
    nontrivial = sum(1 for k, v in handovers.items() if v > 0) * nseeds
    ev = {
        "property_id": "C14", "tier": tier, "seed": seed, "level": "exploration", "wall_s": wall, "violations": 1 if violation else 0,
        "coverage": {
            "evaluations": execs, "distinct_nontrivial": nontrivial,
            "rule": "one evaluation = one seeded program number (for C14: its plain variant and its wide variant, which adds clone_from and failing label conversions, run back to back; construct/clone/convert/compare/hash/hand-over/drop over SharedString and Key labels, 6-19 steps, two threads) executed under one Miri interpreter seed (seeded scheduler with pre-emption at basic-block granularity, weak-memory emulation); distinct = distinct (program, interpreter seed) pairs; non-trivial = the program handed at least one value to the other thread (counted by the program itself)",
            "samples": samples, "engine": "Miri (cargo +nightly miri run -Zmiri-many-seeds), shadow manifest /verif/miri/metrics-shadow building /repo/metrics/src/lib.rs with the guard OFF",
            "programs": progs_done, "miri_seeds_per_program": nseeds, "programs_with_cross_thread_handover": sum(1 for v in handovers.values() if v > 0),
            "runs_per_hour": int(execs / wall * 3600) if wall > 0 else 0, "seeds_per_hour": int(execs / wall * 3600) if wall > 0 else 0,
            "simulated_seconds_covered": 0, "fault_kinds_fired": {},
            "real_components": ["metrics::cow::Cow<str> via SharedString (const_str, from_borrowed, from_owned, from_shared, From<String>, From<std Cow>, clone, deref, Eq/Ord/Hash, Display/Debug, into_owned, Drop)", "Cow<[Label]> via Key (from_parts, from_static_labels, clone, into_parts, with_extra_labels, Drop)", "std::sync::Arc reference counting"],
            "stub_components": ["thread scheduler and memory model: Miri's interpreter (seeded)"],
        },
        "assumptions": ["Miri reports use-after-free, double free, layout-mismatched deallocation, leaks and data races for the executions it interprets; a clean batch is evidence bounded by the programs and seeds run, not proof",
                        "the conversion Cow<T> -> std::borrow::Cow<T> only exists for T: Sized and therefore not for str/slices; it is not exercised",
                        "the copy-on-write type is reached through its public faces only (SharedString, Key labels); Arc<[Label]>-backed slices have no public constructor"],
    }
    os.makedirs(os.path.join(V, "evidence"), exist_ok=True)
    evpath = os.path.join(V, "evidence", f"{prop}.json")
    if append and os.path.exists(evpath):
        # second engine for a dsim-decided property: recorded next to the dsim coverage
        base = json.load(open(evpath))
        base["coverage"]["miri"] = {"executions": execs, "programs": progs_done, "interpreter_seeds_per_program": nseeds, "flags": BASEFLAGS, "wall_s": wall,
                                    "what": "the same property exercised by a small plain-std-thread program under Miri's seeded scheduler (pre-emption at basic-block granularity, weak-memory emulation, data-race / use-after-free / leak detection) through shadow crates that build the shipped source with the guard off",
                                    "violations": 1 if violation else 0}
        base["wall_s"] = base.get("wall_s", 0) + wall
        if violation:
            base["violations"] = base.get("violations", 0) + 1
        json.dump(base, open(evpath, "w"), indent=1)
    else:
        ev["property_id"] = prop
        json.dump(ev, open(evpath, "w"), indent=1)
    print(f"[{prop}:miri] programs={progs_done} x seeds={nseeds} executions={execs} wall={wall:.1f}s", file=sys.stderr)
    if violation:
        print(f"VIOLATION property={prop} replay={violation}")
        sys.exit(1)
    sys.exit(0)


if __name__ == "__main__":
    main()
