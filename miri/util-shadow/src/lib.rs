#![allow(dead_code, unused_imports, clippy::all)]
#[path = "/repo/metrics-util/src/storage/bucket.rs"]
pub mod bucket;
#[path = "/repo/metrics-util/src/storage/reservoir.rs"]
pub mod reservoir;
#[path = "/repo/metrics-util/src/recoverable.rs"]
pub mod recoverable;
