//! C20 under Miri: the REAL global install of a recoverable recorder, emitters through the
//! macros racing `into_inner` / handle drop. One execution = one process life.

use metrics::{Counter, Gauge, Histogram, Key, KeyName, Metadata, Recorder, SharedString, Unit};
use mu_shadow::recoverable::RecoverableRecorder;
use std::sync::atomic::{AtomicBool, AtomicI64, AtomicUsize, Ordering};
use std::sync::Arc;

struct Rec {
    in_flight: Arc<AtomicI64>,
    finalised: Arc<AtomicBool>,
    drops: Arc<AtomicUsize>,
    calls: Arc<AtomicUsize>,
}
impl Drop for Rec {
    fn drop(&mut self) {
        self.finalised.store(true, Ordering::SeqCst);
        self.drops.fetch_add(1, Ordering::SeqCst);
    }
}
impl Rec {
    fn enter(&self) {
        assert!(!self.finalised.load(Ordering::SeqCst), "call entered the recorder after its finalisation began");
        self.in_flight.fetch_add(1, Ordering::SeqCst);
        self.calls.fetch_add(1, Ordering::SeqCst);
        std::thread::yield_now();
        self.in_flight.fetch_sub(1, Ordering::SeqCst);
    }
}
impl Recorder for Rec {
    fn describe_counter(&self, _: KeyName, _: Option<Unit>, _: SharedString) {
        self.enter()
    }
    fn describe_gauge(&self, _: KeyName, _: Option<Unit>, _: SharedString) {
        self.enter()
    }
    fn describe_histogram(&self, _: KeyName, _: Option<Unit>, _: SharedString) {
        self.enter()
    }
    fn register_counter(&self, _: &Key, _: &Metadata<'_>) -> Counter {
        self.enter();
        Counter::noop()
    }
    fn register_gauge(&self, _: &Key, _: &Metadata<'_>) -> Gauge {
        self.enter();
        Gauge::noop()
    }
    fn register_histogram(&self, _: &Key, _: &Metadata<'_>) -> Histogram {
        self.enter();
        Histogram::noop()
    }
}

fn main() {
    let args: Vec<String> = std::env::args().collect();
    let variant: u64 = args.get(1).and_then(|s| s.parse().ok()).unwrap_or(0);
    let (in_flight, finalised, drops, calls) = (Arc::new(AtomicI64::new(0)), Arc::new(AtomicBool::new(false)), Arc::new(AtomicUsize::new(0)), Arc::new(AtomicUsize::new(0)));
    let rec = Rec { in_flight: in_flight.clone(), finalised: finalised.clone(), drops: drops.clone(), calls: calls.clone() };
    let handle = RecoverableRecorder::new(rec).install().ok().expect("first install succeeds");
    let emitters = 1 + variant % 2;
    let mut hs = vec![];
    for e in 0..emitters {
        hs.push(std::thread::spawn(move || {
            for i in 0..3u64 {
                match (e + i) % 3 {
                    0 => metrics::counter!("c20_miri").increment(1),
                    1 => metrics::describe_gauge!("c20_miri_g", "d"),
                    _ => metrics::histogram!("c20_miri_h").record(1.0),
                }
            }
        }));
    }
    if variant / 2 % 2 == 0 {
        let r = handle.into_inner();
        assert_eq!(in_flight.load(Ordering::SeqCst), 0, "into_inner returned while a call was executing inside the recorder");
        let before = calls.load(Ordering::SeqCst);
        for h in hs {
            h.join().unwrap();
        }
        assert_eq!(calls.load(Ordering::SeqCst), before, "an emission reached the recorder after recovery");
        assert_eq!(drops.load(Ordering::SeqCst), 0);
        drop(r);
    } else {
        drop(handle);
        for h in hs {
            h.join().unwrap();
        }
    }
    assert_eq!(drops.load(Ordering::SeqCst), 1, "recorder must be dropped exactly once");
    metrics::counter!("c20_miri").increment(1); // inert now
    println!("prog {} handovers={}", variant, emitters);
    println!("c20-miri ok");
}
