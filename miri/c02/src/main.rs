//! C02 under Miri: racing installers of the REAL process-wide global recorder and emitting
//! threads using the macros. One execution = one process life = one install race; the interpreter
//! seed decides the schedule (pre-emption at basic-block granularity, weak-memory emulation), so
//! a publication with the wrong ordering is reported as a data race on the cell's UnsafeCell.

use metrics::{Counter, Gauge, Histogram, Key, KeyName, Metadata, Recorder, SharedString, Unit};
use std::sync::atomic::{AtomicUsize, Ordering};
use std::sync::{Arc, Mutex};

struct Rec {
    id: usize,
    a: u64,
    b: u64,
    hits: Arc<Mutex<Vec<usize>>>,
    drops: Arc<AtomicUsize>,
}
impl Rec {
    fn intact(&self) -> bool {
        self.a == 0xA5A5_0000 + self.id as u64 && self.b == !self.a
    }
}
impl Drop for Rec {
    fn drop(&mut self) {
        self.drops.fetch_add(1, Ordering::SeqCst);
    }
}
impl Recorder for Rec {
    fn describe_counter(&self, _: KeyName, _: Option<Unit>, _: SharedString) {}
    fn describe_gauge(&self, _: KeyName, _: Option<Unit>, _: SharedString) {}
    fn describe_histogram(&self, _: KeyName, _: Option<Unit>, _: SharedString) {}
    fn register_counter(&self, _: &Key, _: &Metadata<'_>) -> Counter {
        assert!(self.intact(), "emission reached a recorder that is not fully constructed");
        self.hits.lock().unwrap().push(self.id);
        Counter::noop()
    }
    fn register_gauge(&self, _: &Key, _: &Metadata<'_>) -> Gauge {
        Gauge::noop()
    }
    fn register_histogram(&self, _: &Key, _: &Metadata<'_>) -> Histogram {
        Histogram::noop()
    }
}

fn main() {
    let args: Vec<String> = std::env::args().collect();
    let variant: u64 = args.get(1).and_then(|s| s.parse().ok()).unwrap_or(0);
    let installers = 2 + (variant % 3) as usize;
    let emitters = 1 + (variant / 3 % 2) as usize;
    let hits = Arc::new(Mutex::new(Vec::new()));
    let drops: Vec<Arc<AtomicUsize>> = (0..installers).map(|_| Arc::new(AtomicUsize::new(0))).collect();
    let results = Arc::new(Mutex::new(Vec::new()));
    let mut hs = vec![];
    for i in 0..installers {
        let (hits, d, results) = (hits.clone(), drops[i].clone(), results.clone());
        hs.push(std::thread::spawn(move || {
            let rec = Rec { id: i, a: 0xA5A5_0000 + i as u64, b: !(0xA5A5_0000 + i as u64), hits, drops: d.clone() };
            match metrics::set_global_recorder(rec) {
                Ok(()) => results.lock().unwrap().push((i, true)),
                Err(e) => {
                    let r = e.into_inner();
                    assert_eq!(r.id, i, "loser got a different recorder back");
                    assert!(r.intact());
                    assert_eq!(d.load(Ordering::SeqCst), 0, "library dropped the rejected recorder");
                    drop(r);
                    assert_eq!(d.load(Ordering::SeqCst), 1);
                    results.lock().unwrap().push((i, false));
                }
            }
        }));
    }
    for _ in 0..emitters {
        let hits = hits.clone();
        hs.push(std::thread::spawn(move || {
            let mut seen: Option<usize> = None;
            for _ in 0..3 {
                let before = hits.lock().unwrap().len();
                metrics::counter!("c02_miri").increment(1);
                let h = hits.lock().unwrap();
                // emissions of other threads may interleave; look at what is there now
                if h.len() > before {
                    let id = *h.last().unwrap();
                    if let Some(s) = seen {
                        assert_eq!(s, id, "global recorder changed after it had been seen");
                    }
                    seen = Some(id);
                } else {
                    assert!(seen.is_none(), "an emission after the recorder was seen reached nobody");
                }
            }
        }));
    }
    for h in hs {
        h.join().unwrap();
    }
    let r = results.lock().unwrap();
    let winners: Vec<usize> = r.iter().filter(|x| x.1).map(|x| x.0).collect();
    assert_eq!(winners.len(), 1, "exactly one installer must win: {:?}", *r);
    let h = hits.lock().unwrap();
    assert!(h.iter().all(|id| *id == winners[0]), "emissions reached {:?}, winner {}", *h, winners[0]);
    assert_eq!(drops[winners[0]].load(Ordering::SeqCst), 0, "installed recorder was dropped");
    drop(h);
    metrics::counter!("c02_miri").increment(1);
    assert_eq!(*hits.lock().unwrap().last().unwrap(), winners[0]);
    println!("prog {} handovers={}", variant, installers + emitters);
    println!("c02-miri ok");
}
