//! C05 under Miri: pushers, a snapshot reader and clearers on one AtomicBucket pre-filled next to
//! the 64-slot block boundary, with real crossbeam-epoch reclamation. Conservation is checked by
//! the program; Miri adds use-after-free / uninitialised read / data race / leak detection on the
//! block hand-over and reclamation paths, under weak-memory emulation.

use mu_shadow::bucket::AtomicBucket;
use std::collections::BTreeSet;
use std::sync::{Arc, Mutex};

fn main() {
    let args: Vec<String> = std::env::args().collect();
    let first: u64 = args.get(1).and_then(|s| s.parse().ok()).unwrap_or(0);
    let count: u64 = args.get(2).and_then(|s| s.parse().ok()).unwrap_or(1);
    for v in first..first + count {
        let prefill = [0u64, 62, 63, 64][(v % 4) as usize];
        let pushers = 1 + (v / 4 % 2);
        let clearers = 1 + (v / 8 % 2);
        let bucket: Arc<AtomicBucket<u64>> = Arc::new(AtomicBucket::new());
        for i in 0..prefill {
            bucket.push(i + 1);
        }
        let delivered = Arc::new(Mutex::new(Vec::<u64>::new()));
        let mut hs = vec![];
        for p in 0..pushers {
            let b = bucket.clone();
            hs.push(std::thread::spawn(move || {
                for i in 0..3u64 {
                    b.push(1000 * (p + 1) + i);
                }
            }));
        }
        for _ in 0..clearers {
            let (b, d) = (bucket.clone(), delivered.clone());
            hs.push(std::thread::spawn(move || {
                for _ in 0..2 {
                    let mut got = vec![];
                    b.clear_with(|s| got.extend_from_slice(s));
                    d.lock().unwrap().extend(got);
                }
            }));
        }
        {
            let b = bucket.clone();
            hs.push(std::thread::spawn(move || {
                let mut n = 0usize;
                b.data_with(|s| n += s.len());
                let _ = b.is_empty();
                let snap = b.data();
                let set: BTreeSet<u64> = snap.iter().copied().collect();
                assert_eq!(set.len(), snap.len(), "snapshot contains a value twice");
                let _ = n;
            }));
        }
        for h in hs {
            h.join().unwrap();
        }
        let mut all = delivered.lock().unwrap().clone();
        bucket.clear_with(|s| all.extend_from_slice(s));
        let mut want: Vec<u64> = (1..=prefill).collect();
        for p in 0..pushers {
            for i in 0..3u64 {
                want.push(1000 * (p + 1) + i);
            }
        }
        all.sort();
        want.sort();
        assert_eq!(all, want, "values delivered to clears differ from values pushed (lost, duplicated or invented)");
        println!("prog {} handovers={}", v, pushers + clearers);
    }
    println!("c05-miri ok");
}
